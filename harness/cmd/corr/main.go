// corr — correspondence harness: runs the real container-device-interface code
// (linked from /repo's working tree via `replace`) on generated inputs, pipes
// input+observation through the Lean model driver, and summarises agreement
// and judge verdicts.  It never decides VIOLATION itself; ./check does.
package main

import (
	"bufio"
	"bytes"
	"crypto/sha256"
	"encoding/hex"
	"encoding/json"
	"flag"
	"fmt"
	"math/rand"
	"os"
	"os/exec"
	"sort"
	"strings"
	"time"
)

// Case is one protocol line: "stream", "op", inputs, and (after Execute) "obs".
type Case map[string]any

// Stream is one correspondence stream.
type Stream interface {
	Name() string
	// Generate emits input-only cases, all random choices from rng.
	Generate(rng *rand.Rand, tier string, emit func(Case))
	// Execute calls the real code and fills c["obs"]. Must not panic.
	Execute(c Case)
	// TrivialTags: driver tags that do not make a case non-trivial.
	TrivialTags() []string
}

var streams = map[string]Stream{}

func register(s Stream) { streams[s.Name()] = s }

type Verdict struct {
	Agree bool            `json:"agree"`
	Judge string          `json:"judge"`
	Model json.RawMessage `json:"model"`
	Tags  []string        `json:"tags"`
	Error string          `json:"error"`
}

type Failure struct {
	Case     Case              `json:"case"`
	Judge    string            `json:"judge"`
	Agree    bool              `json:"agree"`
	Model    json.RawMessage   `json:"model,omitempty"`
	Error    string            `json:"error,omitempty"`
	Readable map[string]string `json:"readable,omitempty"`
}

type Summary struct {
	Stream             string         `json:"stream"`
	Tier               string         `json:"tier"`
	Seed               int64          `json:"seed"`
	Evaluations        int            `json:"evaluations"`
	DistinctInputs     int            `json:"distinct_inputs"`
	DistinctNontrivial int            `json:"distinct_nontrivial"`
	Agreements         int            `json:"agreements"`
	Disagreements      []Failure      `json:"disagreements"`
	JudgeFailures      []Failure      `json:"judge_failures"`
	DriverErrors       []Failure      `json:"driver_errors"`
	NDisagreements     int            `json:"n_disagreements"`
	NJudgeFailures     int            `json:"n_judge_failures"`
	Tags               map[string]int `json:"tags"`
	Ops                map[string]int `json:"ops"`
	ObsKinds           map[string]int `json:"obs_kinds"`
	Samples            []Case         `json:"samples"`
	Skipped            map[string]int `json:"skipped,omitempty"`
	WallS              float64        `json:"wall_s"`
	Notes              []string       `json:"notes,omitempty"`
}

var skipped = map[string]int{}
var notes []string

func skip(reason string) { skipped[reason]++ }
func note(s string)      { notes = append(notes, s) }

// hx / unhx: byte strings travel hex-encoded.
func hx(s string) string { return hex.EncodeToString([]byte(s)) }
func unhx(s any) string {
	str, _ := s.(string)
	b, err := hex.DecodeString(str)
	if err != nil {
		return ""
	}
	return string(b)
}
func hxList(l []string) []any {
	out := make([]any, len(l))
	for i, s := range l {
		out[i] = hx(s)
	}
	return out
}
func unhxList(v any) []string {
	l, _ := v.([]any)
	out := make([]string, 0, len(l))
	for _, x := range l {
		out = append(out, unhx(x))
	}
	return out
}

func inputKey(c Case) string {
	cp := Case{}
	for k, v := range c {
		if k != "obs" {
			cp[k] = v
		}
	}
	b, _ := json.Marshal(cp)
	h := sha256.Sum256(b)
	return hex.EncodeToString(h[:12])
}

func obsKind(c Case) string {
	o, ok := c["obs"].(map[string]any)
	if !ok {
		return "other"
	}
	if p, _ := o["panic"].(bool); p {
		return "panic"
	}
	if t, _ := o["timeout"].(bool); t {
		return "timeout"
	}
	if v, ok := o["ok"].(bool); ok {
		if v {
			return "ok"
		}
		return "error"
	}
	return "value"
}

func runDriver(driver string, cases []Case) ([]Verdict, error) {
	var in bytes.Buffer
	w := bufio.NewWriter(&in)
	enc := json.NewEncoder(w)
	for _, c := range cases {
		if err := enc.Encode(c); err != nil {
			return nil, err
		}
	}
	w.Flush()
	cmd := exec.Command(driver)
	cmd.Stdin = &in
	var out bytes.Buffer
	cmd.Stdout = &out
	cmd.Stderr = os.Stderr
	if err := cmd.Run(); err != nil {
		return nil, fmt.Errorf("driver: %w", err)
	}
	var vs []Verdict
	sc := bufio.NewScanner(&out)
	sc.Buffer(make([]byte, 1<<20), 1<<28)
	for sc.Scan() {
		var v Verdict
		if err := json.Unmarshal(sc.Bytes(), &v); err != nil {
			return nil, fmt.Errorf("driver output: %w: %s", err, sc.Text())
		}
		vs = append(vs, v)
	}
	if len(vs) != len(cases) {
		return nil, fmt.Errorf("driver returned %d verdicts for %d cases", len(vs), len(cases))
	}
	return vs, nil
}

func readable(c Case) map[string]string {
	out := map[string]string{}
	var walk func(prefix string, v any)
	walk = func(prefix string, v any) {
		switch t := v.(type) {
		case string:
			if b, err := hex.DecodeString(t); err == nil && len(t) > 0 {
				out[prefix] = fmt.Sprintf("%q", string(b))
			}
		case map[string]any:
			for k, x := range t {
				walk(prefix+"."+k, x)
			}
		case Case:
			for k, x := range t {
				walk(prefix+"."+k, x)
			}
		case []any:
			for i, x := range t {
				walk(fmt.Sprintf("%s[%d]", prefix, i), x)
			}
		}
	}
	if len(fmt.Sprint(c)) < 4000 {
		walk("", map[string]any(c))
	}
	return out
}

// childModes: re-executions of this binary as a child process (corr child <mode> args…)
var childModes = map[string]func(args []string) int{}

func main() {
	if len(os.Args) > 2 && os.Args[1] == "child" {
		if f, ok := childModes[os.Args[2]]; ok {
			os.Exit(f(os.Args[3:]))
		}
		os.Exit(97)
	}
	var (
		streamName = flag.String("stream", "", "stream name")
		tier       = flag.String("tier", "quick", "quick|thorough")
		seed       = flag.Int64("seed", 1, "PRNG seed")
		driver     = flag.String("driver", "/verif/lean/.lake/build/bin/cdidriver", "model driver")
		out        = flag.String("out", "", "summary JSON output path")
		replay     = flag.String("replay", "", "replay file (JSON with .cases = [Case…]) instead of generating")
		corpus     = flag.String("corpus", "", "corpus directory: every *.json file holds {cases:[…]} run first")
		maxFail    = flag.Int("maxfail", 25, "max failures kept per list")
	)
	flag.Parse()
	s, ok := streams[*streamName]
	if !ok {
		names := []string{}
		for n := range streams {
			names = append(names, n)
		}
		sort.Strings(names)
		fmt.Fprintf(os.Stderr, "unknown stream %q; have %v\n", *streamName, names)
		os.Exit(2)
	}
	start := time.Now()
	var cases []Case
	loadFile := func(path string) {
		b, err := os.ReadFile(path)
		if err != nil {
			fmt.Fprintln(os.Stderr, err)
			os.Exit(2)
		}
		var f struct {
			Cases []Case `json:"cases"`
		}
		dec := json.NewDecoder(bytes.NewReader(b))
		dec.UseNumber()
		if err := dec.Decode(&f); err != nil {
			fmt.Fprintln(os.Stderr, path, err)
			os.Exit(2)
		}
		for _, c := range f.Cases {
			if st, _ := c["stream"].(string); st == *streamName {
				delete(c, "obs")
				cases = append(cases, c)
			}
		}
	}
	if *replay != "" {
		loadFile(*replay)
	} else {
		if *corpus != "" {
			ents, _ := os.ReadDir(*corpus)
			for _, e := range ents {
				if strings.HasSuffix(e.Name(), ".json") {
					loadFile(*corpus + "/" + e.Name())
				}
			}
		}
		rng := rand.New(rand.NewSource(*seed))
		s.Generate(rng, *tier, func(c Case) {
			c["stream"] = *streamName
			cases = append(cases, c)
		})
	}
	// every case runs under a deadline: a call that does not return is an outcome ("hang"), not a reason for the whole
	// check to wait for the stream's time limit. The case runs on a shallow copy, so that the abandoned goroutine
	// cannot write into what is reported. After a few hangs the remaining cases of that operation are not started.
	deadline := 25 * time.Second
	switch *streamName {
	case "race":
		deadline = 900 * time.Second
	case "crash":
		deadline = 60 * time.Second
	case "watch", "reconf", "fswrite", "cli", "cache", "defaultapi", "codec", "schema", "purity":
		deadline = 180 * time.Second
	}
	if d, err := time.ParseDuration(os.Getenv("VERIF_CASE_DEADLINE")); err == nil && d > 0 {
		deadline = d
	}
	hung := map[int]bool{}
	hangsPerOp := map[string]int{}
	n0 := len(cases)
	for i := 0; i < n0; i++ {
		c := cases[i]
		op, _ := c["op"].(string)
		if hangsPerOp[op] >= 3 {
			hung[i] = true
			c["hang"] = "not started: three earlier cases of this operation did not return"
			continue
		}
		cc := Case{}
		for k, v := range c {
			cc[k] = v
		}
		if *out != "" {
			// a journal of the case in hand: if the process dies (a fatal error no recover() catches - stack overflow,
			// concurrent map access, os.Exit), whoever started it finds here which case it was
			if jb, err := json.Marshal(c); err == nil {
				_ = os.WriteFile(*out+".current", jb, 0o644)
			}
		}
		done := make(chan struct{})
		go func() {
			defer close(done)
			s.Execute(cc)
		}()
		select {
		case <-done:
			cases[i] = cc
			c = cc
		case <-time.After(deadline):
			hung[i] = true
			hangsPerOp[op]++
			c["hang"] = fmt.Sprintf("the call did not return within %s", deadline)
			continue
		}
		// a case may spawn derived, already observed cases (e.g. the removal following a write)
		if sp, ok := c["spawn"].([]Case); ok {
			delete(c, "spawn")
			cases = append(cases, sp...)
		}
	}
	if *out != "" {
		_ = os.Remove(*out + ".current")
	}
	var hungCases []Case
	if len(hung) > 0 {
		var live []Case
		for i, c := range cases {
			if hung[i] {
				hungCases = append(hungCases, c)
			} else {
				live = append(live, c)
			}
		}
		cases = live
	}
	vs, err := runDriver(*driver, cases)
	if err != nil {
		fmt.Fprintln(os.Stderr, err)
		os.Exit(2)
	}
	trivial := map[string]bool{}
	for _, t := range s.TrivialTags() {
		trivial[t] = true
	}
	sum := Summary{Stream: *streamName, Tier: *tier, Seed: *seed, Tags: map[string]int{}, Ops: map[string]int{}, ObsKinds: map[string]int{}, Disagreements: []Failure{}, JudgeFailures: []Failure{}, DriverErrors: []Failure{}, Samples: []Case{}}
	seen := map[string]bool{}
	seenNT := map[string]bool{}
	for i, c := range cases {
		v := vs[i]
		sum.Evaluations++
		op, _ := c["op"].(string)
		sum.Ops[op]++
		sum.ObsKinds[obsKind(c)]++
		k := inputKey(c)
		seen[k] = true
		nt := false
		for _, t := range v.Tags {
			sum.Tags[t]++
			if !trivial[t] {
				nt = true
			}
		}
		if nt {
			seenNT[k] = true
		}
		if v.Error != "" {
			if len(sum.DriverErrors) < *maxFail {
				sum.DriverErrors = append(sum.DriverErrors, Failure{Case: c, Error: v.Error})
			}
			continue
		}
		if v.Agree {
			sum.Agreements++
		} else {
			sum.NDisagreements++
			if len(sum.Disagreements) < *maxFail {
				sum.Disagreements = append(sum.Disagreements, Failure{Case: c, Judge: v.Judge, Agree: false, Model: v.Model, Readable: readable(c)})
			}
		}
		if v.Judge != "ok" {
			sum.NJudgeFailures++
			if len(sum.JudgeFailures) < *maxFail {
				sum.JudgeFailures = append(sum.JudgeFailures, Failure{Case: c, Judge: v.Judge, Agree: v.Agree, Model: v.Model, Readable: readable(c)})
			}
		}
	}
	for _, c := range hungCases {
		sum.Evaluations++
		op, _ := c["op"].(string)
		sum.Ops[op]++
		sum.Tags["hang"]++
		sum.NJudgeFailures++
		sum.NDisagreements++
		f := Failure{Case: c, Judge: "panic-or-hang: " + fmt.Sprint(c["hang"]), Agree: false, Readable: readable(c)}
		if len(sum.JudgeFailures) < *maxFail {
			sum.JudgeFailures = append(sum.JudgeFailures, f)
		}
		if len(sum.Disagreements) < *maxFail {
			sum.Disagreements = append(sum.Disagreements, f)
		}
	}
	sum.DistinctInputs = len(seen)
	sum.DistinctNontrivial = len(seenNT)
	// samples: first, middle, last
	for _, i := range []int{0, len(cases) / 3, 2 * len(cases) / 3, len(cases) - 1} {
		if i >= 0 && i < len(cases) && len(fmt.Sprint(cases[i])) < 6000 {
			sum.Samples = append(sum.Samples, cases[i])
		}
	}
	sum.Skipped = skipped
	sum.Notes = notes
	sum.WallS = time.Since(start).Seconds()
	b, _ := json.MarshalIndent(sum, "", " ")
	if *out != "" {
		if err := os.WriteFile(*out, b, 0o644); err != nil {
			fmt.Fprintln(os.Stderr, err)
			os.Exit(2)
		}
	} else {
		os.Stdout.Write(b)
	}
}
