package main

import (
	"encoding/json"
	"fmt"
	"math/rand"
	"sync"
	"sync/atomic"
	"time"

	"tags.cncf.io/container-device-interface/pkg/cdi"
	specs "tags.cncf.io/container-device-interface/specs-go"
)

// versionStream — C06: MinimumRequiredVersion / ValidateVersion over feature
// subsets x placements x device orders x declared versions.
type versionStream struct{}

func init() { register(versionStream{}) }

func (versionStream) Name() string { return "version" }
func (versionStream) TrivialTags() []string {
	return []string{"devices0", "devices1", "devices2", "devices3", "devices4"}
}

// feature placement: -1 = spec level, k>=0 = device k
const (
	fMountType = iota
	fHostPath
	fRdt
	fGids
	fAnnotations
	fDigitName   // device only
	fDottedClass // spec only
	nFeatures
)

func baseSpec(nDev int) *specs.Spec {
	s := &specs.Spec{Version: specs.CurrentVersion, Kind: "vendor.com/class"}
	for i := 0; i < nDev; i++ {
		s.Devices = append(s.Devices, specs.Device{
			Name:           string(rune('a' + i)),
			ContainerEdits: specs.ContainerEdits{Env: []string{"X=y"}},
		})
	}
	return s
}

// featVariant selects the value a feature is used with: 0 = the plain representative, 1..3 = unusual values of
// the same feature (zero ids, an all-default block, odd spellings) - "uses the feature" must not depend on the value
var featVariant = 0

func placeFeature(s *specs.Spec, f int, where int) {
	var e *specs.ContainerEdits
	if where < 0 {
		e = &s.ContainerEdits
	} else {
		e = &s.Devices[where].ContainerEdits
	}
	switch f {
	case fMountType:
		e.Mounts = append(e.Mounts, &specs.Mount{HostPath: "/h", ContainerPath: "/c", Type: []string{"bind", "tmpfs", " ", "0"}[featVariant]})
	case fHostPath:
		e.DeviceNodes = append(e.DeviceNodes, &specs.DeviceNode{Path: "/dev/x", HostPath: []string{"/dev/y", "/dev/x", " ", "x"}[featVariant]})
	case fRdt:
		e.IntelRdt = []*specs.IntelRdt{{ClosID: "c"}, {}, {EnableCMT: true}, {L3CacheSchema: "L3:0=f", MemBwSchema: "MB:0=1"}}[featVariant]
	case fGids:
		e.AdditionalGIDs = append(e.AdditionalGIDs, [][]uint32{{5}, {0}, {0, 0}, {0, 4294967295}}[featVariant]...)
	case fAnnotations:
		ann := []map[string]string{{"k": "v"}, {"": ""}, {"a/b": ""}, {"k": "v", "l": "w"}}[featVariant]
		if where < 0 {
			s.Annotations = ann
		} else {
			s.Devices[where].Annotations = ann
		}
	case fDigitName:
		if where >= 0 {
			s.Devices[where].Name = []string{"0" + s.Devices[where].Name, "9", "5-x", "00"}[featVariant] + []string{"", string(rune('a' + where)), "", string(rune('a' + where))}[featVariant]
		}
	case fDottedClass:
		s.Kind = "vendor.com/cl.ass"
	}
}

var declaredVersions = []string{"0.1.0", "0.2.0", "0.3.0", "0.4.0", "0.5.0", "0.6.0", "0.7.0", "0.8.0", "1.0.0",
	"v0.5.0", "v1.0.0", "0.5", "0.5.0-rc1", "1.0.1", "", "vv0.5.0", "0.9.0", "1.0", "v", "0.3.0 ", "00.3.0", "0.03.0"}

func (versionStream) Generate(rng *rand.Rand, tier string, emit func(Case)) {
	emitSpec := func(s *specs.Spec, alsoValid bool) {
		emit(Case{"op": "minver", "spec": specToProto(s)})
		if alsoValid {
			for _, v := range declaredVersions {
				c := *s
				c.Version = v
				emit(Case{"op": "validver", "spec": specToProto(&c)})
			}
		}
	}
	// exhaustive: every single feature at every placement for 0..3 devices, both with neutral mounts/nodes elsewhere
	for nDev := 0; nDev <= 3; nDev++ {
		emitSpec(baseSpec(nDev), true)
		for f := 0; f < nFeatures; f++ {
			for where := -1; where < nDev; where++ {
				if (f == fDigitName && where < 0) || (f == fDottedClass && where >= 0) {
					continue
				}
				s := baseSpec(nDev)
				placeFeature(s, f, where)
				emitSpec(s, true)
				// same with neutral (feature-free) mounts and device nodes on every other edits block
				s2 := baseSpec(nDev)
				for k := -1; k < nDev; k++ {
					if k == where {
						continue
					}
					var e *specs.ContainerEdits
					if k < 0 {
						e = &s2.ContainerEdits
					} else {
						e = &s2.Devices[k].ContainerEdits
					}
					e.Mounts = append(e.Mounts, &specs.Mount{HostPath: "/h", ContainerPath: "/c"})
					e.DeviceNodes = append(e.DeviceNodes, &specs.DeviceNode{Path: "/dev/n"})
				}
				placeFeature(s2, f, where)
				emitSpec(s2, false)
			}
		}
	}
	// every feature with unusual values of the same feature, at every placement of a two-device Spec
	for v := 1; v <= 3; v++ {
		featVariant = v
		for f := 0; f < nFeatures; f++ {
			for where := -1; where < 2; where++ {
				if (f == fDigitName && where < 0) || (f == fDottedClass && where >= 0) {
					continue
				}
				s := baseSpec(2)
				placeFeature(s, f, where)
				emitSpec(s, true)
			}
		}
	}
	featVariant = 0
	// one Spec object evaluated, edited in place, evaluated again: every ordered pair of features at every placement
	// of a two-device Spec (the answer belongs to the current content)
	for f := -1; f < nFeatures; f++ {
		for g := -1; g < nFeatures; g++ {
			for where := -1; where < 2; where++ {
				if f == g || f == fDigitName || g == fDigitName || f == fDottedClass || g == fDottedClass {
					continue // keep kind and device names: the object keeps its identity
				}
				pre, fin := baseSpec(2), baseSpec(2)
				if f >= 0 {
					placeFeature(pre, f, where)
				}
				if g >= 0 {
					placeFeature(fin, g, (where+2)%3-1)
				}
				emit(Case{"op": "minver", "spec": specToProto(fin), "pre": specToProto(pre)})
				for _, v := range []string{"0.3.0", "0.5.0", "0.6.0", "0.7.0", "0.8.0"} {
					c := *fin
					c.Version = v
					p := *pre
					p.Version = v
					emit(Case{"op": "validver", "spec": specToProto(&c), "pre": specToProto(&p)})
				}
			}
		}
	}
	// the same Specs blown up to thousands of devices and evaluated by many goroutines at once (three cases)
	for _, fw := range [][2]int{{fMountType, 1}, {fHostPath, -1}, {-1, 0}} {
		s := baseSpec(3)
		if fw[0] >= 0 {
			placeFeature(s, fw[0], fw[1])
		}
		emit(Case{"op": "minver", "spec": specToProto(s), "stress": true})
	}
	// boundary sweep of the one character-class rule in the version logic: every first byte of a
	// device name, at every device position, alone and declared as each old version
	for b := 0; b < 256; b++ {
		for where := 0; where < 3; where++ {
			s := baseSpec(3)
			s.Devices[where].Name = string([]byte{byte(b)}) + "x"
			emit(Case{"op": "minver", "spec": specToProto(s)})
			if where == b%3 {
				for _, v := range []string{"0.3.0", "0.4.0", "0.5.0"} {
					c := *s
					c.Version = v
					emit(Case{"op": "validver", "spec": specToProto(&c)})
				}
			}
		}
	}
	// present-but-empty annotation maps use no annotation feature
	for _, where := range []int{-1, 0, 1} {
		// (the protocol does not distinguish an empty from an absent map: the flag re-creates it)
		emit(Case{"op": "minver", "spec": specToProto(baseSpec(2)), "emptyann": where})
		for _, v := range []string{"0.3.0", "0.5.0"} {
			c := baseSpec(2)
			c.Version = v
			emit(Case{"op": "validver", "spec": specToProto(c), "emptyann": where})
		}
	}
	// a dot at every position of the class (the other character rule)
	for _, kind := range []string{"vendor.com/.class", "vendor.com/cl.ass", "vendor.com/class.", "vendor.com/c.l.a", "vendor.com/.", "ven.dor/class", "vendor.com/cl-ass", "vendor.com/cl_ass"} {
		s := baseSpec(2)
		s.Kind = kind
		emitSpec(s, true)
	}
	// pairs of features at all placements for 2 and 3 devices
	for nDev := 2; nDev <= 3; nDev++ {
		for f := 0; f < nFeatures; f++ {
			for g := f + 1; g < nFeatures; g++ {
				for w1 := -1; w1 < nDev; w1++ {
					for w2 := -1; w2 < nDev; w2++ {
						s := baseSpec(nDev)
						placeFeature(s, f, w1)
						placeFeature(s, g, w2)
						emitSpec(s, false)
					}
				}
			}
		}
	}
	// random larger specs, with permuted device order; nil entries included
	n := 400
	if tier == "thorough" {
		n = 20000
	}
	for i := 0; i < n; i++ {
		nDev := 1 + rng.Intn(5)
		s := baseSpec(nDev)
		for k := rng.Intn(4); k > 0; k-- {
			placeFeature(s, rng.Intn(nFeatures), rng.Intn(nDev+1)-1)
		}
		if rng.Intn(6) == 0 {
			// null entries before, after and between the real ones, in a device or at Spec level: whatever sits behind a
			// null entry still counts
			e := &s.Devices[rng.Intn(nDev)].ContainerEdits
			if rng.Intn(3) == 0 {
				e = &s.ContainerEdits
			}
			switch rng.Intn(5) {
			case 0:
				e.Mounts = append(e.Mounts, nil)
			case 1:
				e.DeviceNodes = append(e.DeviceNodes, nil)
			case 2:
				e.Mounts = append([]*specs.Mount{nil}, e.Mounts...)
			case 3:
				e.DeviceNodes = append([]*specs.DeviceNode{nil}, e.DeviceNodes...)
			case 4:
				e.Mounts = append([]*specs.Mount{nil}, append(e.Mounts, nil, &specs.Mount{HostPath: "/h2", ContainerPath: "/c2", Type: "tmpfs"})...)
			}
		}
		emitSpec(s, rng.Intn(8) == 0)
		// a permutation of the devices must give the same answer
		p := *s
		p.Devices = append([]specs.Device{}, s.Devices...)
		rng.Shuffle(len(p.Devices), func(a, b int) { p.Devices[a], p.Devices[b] = p.Devices[b], p.Devices[a] })
		emitSpec(&p, false)
	}
}

// protoToSpec rebuilds the typed Spec from its protocol form (used for replay).
func protoToSpec(v any) *specs.Spec {
	m, ok := v.(map[string]any)
	if !ok {
		return nil
	}
	unh := func(x any) any { return x }
	_ = unh
	var conv func(x any) any
	conv = func(x any) any {
		switch t := x.(type) {
		case string:
			return unhx(t)
		case []any:
			out := make([]any, len(t))
			for i, e := range t {
				out[i] = conv(e)
			}
			return out
		case map[string]any:
			if _, isKV := t["k"]; isKV && len(t) == 2 {
				return t
			}
			out := map[string]any{}
			for k, e := range t {
				if k == "annotations" {
					mm := map[string]string{}
					if l, ok := e.([]any); ok {
						for _, kv := range l {
							o := kv.(map[string]any)
							mm[unhx(o["k"])] = unhx(o["v"])
						}
					}
					if len(mm) > 0 {
						out[k] = mm
					}
					continue
				}
				out[k] = conv(e)
			}
			return out
		}
		return x
	}
	b, _ := json.Marshal(conv(m))
	var s specs.Spec
	if err := json.Unmarshal(b, &s); err != nil {
		return nil
	}
	return &s
}

func (versionStream) Execute(c Case) {
	obs := map[string]any{"panic": false, "v": "", "ok": false}
	defer func() {
		if r := recover(); r != nil {
			obs["panic"] = true
		}
		c["obs"] = obs
	}()
	s := protoToSpec(c["spec"])
	if s == nil {
		obs["panic"] = true
		return
	}
	if pre := protoToSpec(c["pre"]); pre != nil {
		// the Spec object is first evaluated in an earlier state, then edited in place (same object, same kind, same
		// number of devices) into the state the case describes
		final := *s
		s = pre
		_, _ = specs.MinimumRequiredVersion(s)
		_ = specs.ValidateVersion(s)
		*s = final
	}
	if w, ok := c["emptyann"]; ok {
		if i := kindIdx(w); i < 0 {
			s.Annotations = map[string]string{}
		} else if i < len(s.Devices) {
			s.Devices[i].Annotations = map[string]string{}
		}
	}
	switch c["op"] {
	case "minver":
		v, _ := specs.MinimumRequiredVersion(s)
		obs["v"] = hx(v)
		// the deprecated wrapper of package cdi and a second evaluation (Go map iteration order) must agree
		aux := []any{}
		if w, err := cdi.MinimumRequiredVersion(s); err != nil || w != v {
			aux = append(aux, fmt.Sprintf("cdi.MinimumRequiredVersion = %q, %v; specs.MinimumRequiredVersion = %q", w, err, v))
		}
		// the Spec as a file: what the library parses from its JSON and YAML text requires the same version (nothing
		// the file spells out - a hostPath equal to the path, an explicit false, an empty string - is dropped or added on the way in)
		func() {
			defer func() { _ = recover() }()
			for _, enc := range []string{"json", "yaml"} {
				var text []byte
				var err error
				if enc == "json" {
					text, err = json.Marshal(s)
				} else {
					text, err = yaml3Marshal(s)
				}
				if err != nil {
					continue
				}
				parsed, err := cdi.ParseSpec(text)
				if err != nil || parsed == nil {
					continue
				}
				if w, _ := specs.MinimumRequiredVersion(parsed); w != v {
					aux = append(aux, fmt.Sprintf("MinimumRequiredVersion of the Spec parsed from its %s text is %q, of the Spec itself %q", enc, w, v))
				}
			}
		}()
		for i := 0; i < 4; i++ {
			if w, _ := specs.MinimumRequiredVersion(s); w != v {
				aux = append(aux, fmt.Sprintf("MinimumRequiredVersion is not repeatable: %q then %q", v, w))
				break
			}
		}
		// evaluated next to evaluations of other Specs on other goroutines, the answer must be the same (the
		// function is documented as a pure function of its argument)
		if st, _ := c["stress"].(bool); st && stressDiffers(s, v) {
			aux = append(aux, fmt.Sprintf("MinimumRequiredVersion of a Spec with many devices answers differently while 32 goroutines evaluate other large Specs (sequentially: %q)", v))
		}
		if concurrentDiffers(s, v) {
			aux = append(aux, fmt.Sprintf("MinimumRequiredVersion answers differently while other Specs are being evaluated concurrently (sequentially: %q)", v))
		}
		obs["aux"] = aux
	case "validver":
		obs["ok"] = specs.ValidateVersion(s) == nil
	}
}

var concCount int

// concurrentDiffers evaluates s (expected answer v) on 4 goroutines while 4 others evaluate Specs with other
// feature sets; true if any evaluation of s disagrees with v. Sampled: every 64th case, 200 rounds each.
func concurrentDiffers(s *specs.Spec, v string) bool {
	concCount++
	if concCount%64 != 0 {
		return false
	}
	others := []*specs.Spec{baseSpec(3), baseSpec(3), baseSpec(3)}
	placeFeature(others[0], fMountType, 1)
	placeFeature(others[1], fHostPath, -1)
	placeFeature(others[2], fGids, 2)
	for _, o := range others { // many devices: a longer evaluation, a wider window
		for len(o.Devices) < 400 {
			o.Devices = append(o.Devices, o.Devices[len(o.Devices)%3])
		}
	}
	var wg sync.WaitGroup
	var differs atomic.Bool
	stop := make(chan struct{})
	for g := 0; g < 4; g++ {
		wg.Add(1)
		go func(g int) {
			defer wg.Done()
			defer func() { _ = recover() }()
			for {
				select {
				case <-stop:
					return
				default:
					_, _ = specs.MinimumRequiredVersion(others[g%3])
				}
			}
		}(g)
	}
	var wg2 sync.WaitGroup
	for g := 0; g < 4; g++ {
		wg2.Add(1)
		go func() {
			defer wg2.Done()
			defer func() { _ = recover() }()
			for i := 0; i < 200; i++ {
				if w, _ := specs.MinimumRequiredVersion(s); w != v {
					differs.Store(true)
				}
				if (specs.ValidateVersion(s) == nil) != (specs.ValidateVersion(s) == nil) {
					differs.Store(true)
				}
			}
		}()
	}
	wg2.Wait()
	close(stop)
	wg.Wait()
	return differs.Load()
}

// stressDiffers: s and two Specs with other feature sets, each blown up to 20000 devices (same feature set, so the
// same answer), evaluated by 32 goroutines for 400 ms; true if an evaluation of a copy of s disagrees with v.
func stressDiffers(s *specs.Spec, v string) bool {
	blow := func(o *specs.Spec) *specs.Spec {
		b := *o
		b.Devices = append([]specs.Device{}, o.Devices...)
		for n := len(o.Devices); n > 0 && len(b.Devices) < 20000; {
			b.Devices = append(b.Devices, o.Devices[len(b.Devices)%n])
		}
		return &b
	}
	o1, o2 := baseSpec(3), baseSpec(3)
	placeFeature(o1, fMountType, 2)
	placeFeature(o1, fHostPath, 0)
	placeFeature(o2, fGids, -1)
	all := []*specs.Spec{blow(s), blow(o1), blow(o2)}
	want := []string{v, "", ""}
	want[1], _ = specs.MinimumRequiredVersion(all[1])
	want[2], _ = specs.MinimumRequiredVersion(all[2])
	var differs atomic.Bool
	var wg sync.WaitGroup
	deadline := time.Now().Add(400 * time.Millisecond)
	for g := 0; g < 32; g++ {
		wg.Add(1)
		go func(g int) {
			defer wg.Done()
			defer func() {
				if recover() != nil {
					differs.Store(true)
				}
			}()
			for i := g; time.Now().Before(deadline) && !differs.Load(); i++ {
				if w, _ := specs.MinimumRequiredVersion(all[i%3]); w != want[i%3] {
					differs.Store(true)
				}
			}
		}(g)
	}
	wg.Wait()
	return differs.Load()
}
