package main

import (
	"encoding/json"
	"fmt"
	"math/rand"

	"tags.cncf.io/container-device-interface/pkg/cdi"
	specs "tags.cncf.io/container-device-interface/specs-go"
)

// versionStream — C06: MinimumRequiredVersion / ValidateVersion over feature
// subsets x placements x device orders x declared versions.
type versionStream struct{}

func init() { register(versionStream{}) }

func (versionStream) Name() string { return "version" }
func (versionStream) TrivialTags() []string {
	return []string{"devices0", "devices1", "devices2", "devices3", "devices4"}
}

// feature placement: -1 = spec level, k>=0 = device k
const (
	fMountType = iota
	fHostPath
	fRdt
	fGids
	fAnnotations
	fDigitName   // device only
	fDottedClass // spec only
	nFeatures
)

func baseSpec(nDev int) *specs.Spec {
	s := &specs.Spec{Version: specs.CurrentVersion, Kind: "vendor.com/class"}
	for i := 0; i < nDev; i++ {
		s.Devices = append(s.Devices, specs.Device{
			Name:           string(rune('a' + i)),
			ContainerEdits: specs.ContainerEdits{Env: []string{"X=y"}},
		})
	}
	return s
}

func placeFeature(s *specs.Spec, f int, where int) {
	var e *specs.ContainerEdits
	if where < 0 {
		e = &s.ContainerEdits
	} else {
		e = &s.Devices[where].ContainerEdits
	}
	switch f {
	case fMountType:
		e.Mounts = append(e.Mounts, &specs.Mount{HostPath: "/h", ContainerPath: "/c", Type: "bind"})
	case fHostPath:
		e.DeviceNodes = append(e.DeviceNodes, &specs.DeviceNode{Path: "/dev/x", HostPath: "/dev/y"})
	case fRdt:
		e.IntelRdt = &specs.IntelRdt{ClosID: "c"}
	case fGids:
		e.AdditionalGIDs = append(e.AdditionalGIDs, 5)
	case fAnnotations:
		if where < 0 {
			s.Annotations = map[string]string{"k": "v"}
		} else {
			s.Devices[where].Annotations = map[string]string{"k": "v"}
		}
	case fDigitName:
		if where >= 0 {
			s.Devices[where].Name = "0" + s.Devices[where].Name
		}
	case fDottedClass:
		s.Kind = "vendor.com/cl.ass"
	}
}

var declaredVersions = []string{"0.1.0", "0.2.0", "0.3.0", "0.4.0", "0.5.0", "0.6.0", "0.7.0", "0.8.0", "1.0.0",
	"v0.5.0", "v1.0.0", "0.5", "0.5.0-rc1", "1.0.1", "", "vv0.5.0", "0.9.0", "1.0", "v", "0.3.0 ", "00.3.0", "0.03.0"}

func (versionStream) Generate(rng *rand.Rand, tier string, emit func(Case)) {
	emitSpec := func(s *specs.Spec, alsoValid bool) {
		emit(Case{"op": "minver", "spec": specToProto(s)})
		if alsoValid {
			for _, v := range declaredVersions {
				c := *s
				c.Version = v
				emit(Case{"op": "validver", "spec": specToProto(&c)})
			}
		}
	}
	// exhaustive: every single feature at every placement for 0..3 devices, both with neutral mounts/nodes elsewhere
	for nDev := 0; nDev <= 3; nDev++ {
		emitSpec(baseSpec(nDev), true)
		for f := 0; f < nFeatures; f++ {
			for where := -1; where < nDev; where++ {
				if (f == fDigitName && where < 0) || (f == fDottedClass && where >= 0) {
					continue
				}
				s := baseSpec(nDev)
				placeFeature(s, f, where)
				emitSpec(s, true)
				// same with neutral (feature-free) mounts and device nodes on every other edits block
				s2 := baseSpec(nDev)
				for k := -1; k < nDev; k++ {
					if k == where {
						continue
					}
					var e *specs.ContainerEdits
					if k < 0 {
						e = &s2.ContainerEdits
					} else {
						e = &s2.Devices[k].ContainerEdits
					}
					e.Mounts = append(e.Mounts, &specs.Mount{HostPath: "/h", ContainerPath: "/c"})
					e.DeviceNodes = append(e.DeviceNodes, &specs.DeviceNode{Path: "/dev/n"})
				}
				placeFeature(s2, f, where)
				emitSpec(s2, false)
			}
		}
	}
	// boundary sweep of the one character-class rule in the version logic: every first byte of a
	// device name, at every device position, alone and declared as each old version
	for b := 0; b < 256; b++ {
		for where := 0; where < 3; where++ {
			s := baseSpec(3)
			s.Devices[where].Name = string([]byte{byte(b)}) + "x"
			emit(Case{"op": "minver", "spec": specToProto(s)})
			if where == b%3 {
				for _, v := range []string{"0.3.0", "0.4.0", "0.5.0"} {
					c := *s
					c.Version = v
					emit(Case{"op": "validver", "spec": specToProto(&c)})
				}
			}
		}
	}
	// present-but-empty annotation maps use no annotation feature
	for _, where := range []int{-1, 0, 1} {
		// (the protocol does not distinguish an empty from an absent map: the flag re-creates it)
		emit(Case{"op": "minver", "spec": specToProto(baseSpec(2)), "emptyann": where})
		for _, v := range []string{"0.3.0", "0.5.0"} {
			c := baseSpec(2)
			c.Version = v
			emit(Case{"op": "validver", "spec": specToProto(c), "emptyann": where})
		}
	}
	// a dot at every position of the class (the other character rule)
	for _, kind := range []string{"vendor.com/.class", "vendor.com/cl.ass", "vendor.com/class.", "vendor.com/c.l.a", "vendor.com/.", "ven.dor/class", "vendor.com/cl-ass", "vendor.com/cl_ass"} {
		s := baseSpec(2)
		s.Kind = kind
		emitSpec(s, true)
	}
	// pairs of features at all placements for 2 and 3 devices
	for nDev := 2; nDev <= 3; nDev++ {
		for f := 0; f < nFeatures; f++ {
			for g := f + 1; g < nFeatures; g++ {
				for w1 := -1; w1 < nDev; w1++ {
					for w2 := -1; w2 < nDev; w2++ {
						s := baseSpec(nDev)
						placeFeature(s, f, w1)
						placeFeature(s, g, w2)
						emitSpec(s, false)
					}
				}
			}
		}
	}
	// random larger specs, with permuted device order; nil entries included
	n := 400
	if tier == "thorough" {
		n = 20000
	}
	for i := 0; i < n; i++ {
		nDev := 1 + rng.Intn(5)
		s := baseSpec(nDev)
		for k := rng.Intn(4); k > 0; k-- {
			placeFeature(s, rng.Intn(nFeatures), rng.Intn(nDev+1)-1)
		}
		if rng.Intn(10) == 0 {
			e := &s.Devices[rng.Intn(nDev)].ContainerEdits
			switch rng.Intn(2) {
			case 0:
				e.Mounts = append(e.Mounts, nil)
			case 1:
				e.DeviceNodes = append(e.DeviceNodes, nil)
			}
		}
		emitSpec(s, rng.Intn(8) == 0)
		// a permutation of the devices must give the same answer
		p := *s
		p.Devices = append([]specs.Device{}, s.Devices...)
		rng.Shuffle(len(p.Devices), func(a, b int) { p.Devices[a], p.Devices[b] = p.Devices[b], p.Devices[a] })
		emitSpec(&p, false)
	}
}

// protoToSpec rebuilds the typed Spec from its protocol form (used for replay).
func protoToSpec(v any) *specs.Spec {
	m, ok := v.(map[string]any)
	if !ok {
		return nil
	}
	unh := func(x any) any { return x }
	_ = unh
	var conv func(x any) any
	conv = func(x any) any {
		switch t := x.(type) {
		case string:
			return unhx(t)
		case []any:
			out := make([]any, len(t))
			for i, e := range t {
				out[i] = conv(e)
			}
			return out
		case map[string]any:
			if _, isKV := t["k"]; isKV && len(t) == 2 {
				return t
			}
			out := map[string]any{}
			for k, e := range t {
				if k == "annotations" {
					mm := map[string]string{}
					if l, ok := e.([]any); ok {
						for _, kv := range l {
							o := kv.(map[string]any)
							mm[unhx(o["k"])] = unhx(o["v"])
						}
					}
					if len(mm) > 0 {
						out[k] = mm
					}
					continue
				}
				out[k] = conv(e)
			}
			return out
		}
		return x
	}
	b, _ := json.Marshal(conv(m))
	var s specs.Spec
	if err := json.Unmarshal(b, &s); err != nil {
		return nil
	}
	return &s
}

func (versionStream) Execute(c Case) {
	obs := map[string]any{"panic": false, "v": "", "ok": false}
	defer func() {
		if r := recover(); r != nil {
			obs["panic"] = true
		}
		c["obs"] = obs
	}()
	s := protoToSpec(c["spec"])
	if s == nil {
		obs["panic"] = true
		return
	}
	if w, ok := c["emptyann"]; ok {
		if i := kindIdx(w); i < 0 {
			s.Annotations = map[string]string{}
		} else if i < len(s.Devices) {
			s.Devices[i].Annotations = map[string]string{}
		}
	}
	switch c["op"] {
	case "minver":
		v, _ := specs.MinimumRequiredVersion(s)
		obs["v"] = hx(v)
		// the deprecated wrapper of package cdi and a second evaluation (Go map iteration order) must agree
		aux := []any{}
		if w, err := cdi.MinimumRequiredVersion(s); err != nil || w != v {
			aux = append(aux, fmt.Sprintf("cdi.MinimumRequiredVersion = %q, %v; specs.MinimumRequiredVersion = %q", w, err, v))
		}
		for i := 0; i < 4; i++ {
			if w, _ := specs.MinimumRequiredVersion(s); w != v {
				aux = append(aux, fmt.Sprintf("MinimumRequiredVersion is not repeatable: %q then %q", v, w))
				break
			}
		}
		obs["aux"] = aux
	case "validver":
		obs["ok"] = specs.ValidateVersion(s) == nil
	}
}
