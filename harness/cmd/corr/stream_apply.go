package main

import (
	"encoding/json"
	"fmt"
	"math/rand"
	"os"
	"path/filepath"
	"reflect"
	"strings"

	oci "github.com/opencontainers/runtime-spec/specs-go"
	"golang.org/x/sys/unix"
	"tags.cncf.io/container-device-interface/pkg/cdi"
	specs "tags.cncf.io/container-device-interface/specs-go"
)

// applyStream — C03: ContainerEdits.Apply on generated initial OCI specs and edit
// lists, with real host device nodes created by mknod in a scratch directory.
type applyStream struct{}

func init() { register(applyStream{}) }

func (applyStream) Name() string          { return "apply" }
func (applyStream) TrivialTags() []string { return []string{"applied"} }

// per-process scratch root: concurrent runs of the harness must not share a tree
var applyRoot = scratchRoot("/tmp/cdi-verif-apply")

// host nodes available to the edits: name -> (kind, major, minor)
type hostNode struct {
	Kind         string // c b p other missing
	Major, Minor uint32
}

var hostNodes = map[string]hostNode{
	"chr1": {"c", 1, 3}, "chr2": {"c", 226, 128}, "blk1": {"b", 7, 0}, "blk2": {"b", 8, 17}, "fifo": {"p", 0, 0},
	"file": {"other", 0, 0}, "gone": {"missing", 0, 0}, "chr0": {"c", 0, 5},
	// numbers beyond 8 bits of major and 16 bits of minor (the kernel's dev_t has 12 + 20)
	"chrbig": {"c", 511, 65539}, "blkbig": {"b", 4095, 1048575},
}
var hostOrder = []string{"chr1", "chr2", "blk1", "blk2", "fifo", "file", "gone", "chr0", "chrbig", "blkbig"}

// hostAt: what lies under the path called `name` in a case with rotation `rot`: the paths keep their names from
// case to case while the nodes behind them change (so nothing remembered about a path from an earlier Apply in
// this process is still true)
func hostAt(name string, rot int) hostNode {
	for i, n := range hostOrder {
		if n == name {
			return hostNodes[hostOrder[(i+rot)%len(hostOrder)]]
		}
	}
	return hostNodes[name]
}

func setupHostNodes(rot int) bool {
	_ = os.RemoveAll(applyRoot)
	if err := os.MkdirAll(applyRoot, 0o755); err != nil {
		return false
	}
	ok := true
	for name := range hostNodes {
		n := hostAt(name, rot)
		p := filepath.Join(applyRoot, name)
		var err error
		switch n.Kind {
		case "c":
			err = unix.Mknod(p, unix.S_IFCHR|0o600, int(unix.Mkdev(n.Major, n.Minor)))
		case "b":
			err = unix.Mknod(p, unix.S_IFBLK|0o600, int(unix.Mkdev(n.Major, n.Minor)))
		case "p":
			err = unix.Mkfifo(p, 0o600)
		case "other":
			err = os.WriteFile(p, []byte("x"), 0o644)
		}
		if err != nil {
			ok = false
		}
	}
	return ok
}

func hostView(rot int) []any {
	var out []any
	for _, name := range hostOrder {
		n := hostAt(name, rot)
		if n.Kind == "missing" {
			continue
		}
		out = append(out, map[string]any{"path": hx(filepath.Join(applyRoot, name)), "kind": n.Kind, "major": n.Major, "minor": n.Minor})
	}
	return out
}

var applyDests = []string{"/a", "/a/b", "/a/b/c", "/x", "/x/y", "//a//b/", "/a/./b", "/a/b/../b", "rel/path", "/", "/a/", "/usr/lib/x/y/z", "/proc"}
var applyEnvNames = []string{"FOO", "BAR", "PATH", "A_B", "X"}
var applyDevPaths = []string{"/dev/a", "/dev/b", "/dev/c", "/dev/dri/card0"}

func u32p(v uint32) *uint32 { return &v }
func intp(v int) *int       { return &v }

func genOci(rng *rand.Rand) *oci.Spec {
	s := &oci.Spec{Version: "1.0.2", Hostname: "keep-me", Root: &oci.Root{Path: "rootfs"}}
	switch rng.Intn(4) {
	case 0: // no process at all
	case 1:
		s.Process = &oci.Process{Cwd: "/work"}
	default:
		s.Process = &oci.Process{Cwd: "/work", Args: []string{"sh"}}
		for i := rng.Intn(4); i > 0; i-- {
			s.Process.Env = append(s.Process.Env, applyEnvNames[rng.Intn(len(applyEnvNames))]+"=init"+fmt.Sprint(i))
		}
		if rng.Intn(2) == 0 {
			s.Process.User.UID = uint32(rng.Intn(3)) * 500
			s.Process.User.GID = uint32(rng.Intn(3)) * 600
		}
		for i := rng.Intn(3); i > 0; i-- {
			s.Process.User.AdditionalGids = append(s.Process.User.AdditionalGids, uint32(1+rng.Intn(4)))
		}
	}
	if rng.Intn(3) > 0 {
		s.Linux = &oci.Linux{CgroupsPath: "/keep"}
		perm := rng.Perm(len(applyDevPaths))
		for i := rng.Intn(3); i > 0; i-- {
			s.Linux.Devices = append(s.Linux.Devices, oci.LinuxDevice{Path: applyDevPaths[perm[i]], Type: "c", Major: 9, Minor: int64(i)})
		}
		if rng.Intn(2) == 0 {
			maj := int64(5)
			s.Linux.Resources = &oci.LinuxResources{Devices: []oci.LinuxDeviceCgroup{{Allow: false, Access: "rwm"}, {Allow: true, Type: "c", Major: &maj, Access: "r"}}}
		}
		if rng.Intn(4) == 0 {
			s.Linux.IntelRdt = &oci.LinuxIntelRdt{ClosID: "old", L3CacheSchema: "L3:0=f"}
		}
	}
	perm := rng.Perm(len(applyDests))
	for i := rng.Intn(5); i > 0; i-- {
		s.Mounts = append(s.Mounts, oci.Mount{Destination: applyDests[perm[i]], Source: "/init" + fmt.Sprint(i), Type: "bind", Options: []string{"ro"}})
	}
	if rng.Intn(12) == 0 {
		// outside the well-formedness hypotheses (no judge verdict; validates the model's generator quirks):
		// an env entry without '=', a duplicated device path, a duplicated mount destination
		if s.Process != nil {
			s.Process.Env = append(s.Process.Env, applyEnvNames[rng.Intn(len(applyEnvNames))])
		}
		if s.Linux != nil && len(s.Linux.Devices) > 0 {
			s.Linux.Devices = append(s.Linux.Devices, s.Linux.Devices[0])
		}
		if len(s.Mounts) > 0 {
			s.Mounts = append(s.Mounts, s.Mounts[0])
		}
	}
	if rng.Intn(3) == 0 {
		s.Hooks = &oci.Hooks{Prestart: []oci.Hook{{Path: "/bin/pre"}}, Poststop: []oci.Hook{{Path: "/bin/stop", Args: []string{"stop"}}}}
		if rng.Intn(2) == 0 {
			s.Hooks.CreateRuntime = []oci.Hook{{Path: "/bin/cr", Timeout: intp(3)}}
		}
	}
	return s
}

func genEdits(rng *rand.Rand) *specs.ContainerEdits {
	e := &specs.ContainerEdits{}
	if rng.Intn(3) > 0 {
		for i := 1 + rng.Intn(4); i > 0; i-- {
			e.Env = append(e.Env, applyEnvNames[rng.Intn(len(applyEnvNames))]+"=edit"+fmt.Sprint(i)+[]string{"", "=x=y"}[rng.Intn(2)])
		}
	}
	if rng.Intn(3) > 0 {
		for i := 1 + rng.Intn(3); i > 0; i-- {
			hn := hostOrder[rng.Intn(len(hostOrder))]
			if rng.Intn(3) > 0 {
				hn = hostOrder[rng.Intn(5)] // mostly real devices
			}
			d := &specs.DeviceNode{Path: applyDevPaths[rng.Intn(len(applyDevPaths))]}
			switch rng.Intn(4) {
			case 0: // host path = container path (only works if it exists on the host; usually an error)
				d.Path = filepath.Join(applyRoot, hn)
			default:
				d.HostPath = filepath.Join(applyRoot, hn)
			}
			switch rng.Intn(5) {
			case 0:
				d.Type = hostNodes[hn].Kind
				if d.Type == "other" || d.Type == "missing" {
					d.Type = "c"
				}
			case 1:
				d.Type = []string{"c", "b", "u", "p"}[rng.Intn(4)]
			case 2:
				d.Type = "c"
				d.Major, d.Minor = int64(1+rng.Intn(200)), int64(rng.Intn(200))
			}
			if rng.Intn(3) == 0 {
				d.Permissions = []string{"r", "rw", "rwm", "m"}[rng.Intn(4)]
			}
			// an explicit 0 is not "unset": root-owned nodes in containers of an unprivileged user
			ids := []uint32{0, 0, 500, 600, 1, 4294967295, uint32(rng.Intn(2000))}
			if rng.Intn(3) == 0 {
				d.UID = u32p(ids[rng.Intn(len(ids))])
			}
			if rng.Intn(3) == 0 {
				d.GID = u32p(ids[rng.Intn(len(ids))])
			}
			if rng.Intn(4) == 0 {
				m := []os.FileMode{0o640, 0, 0o777, 0o1777, 0o4755, 0o7777, os.ModeCharDevice | 0o660, os.ModeSetuid | 0o755}[rng.Intn(8)]
				d.FileMode = &m
			}
			e.DeviceNodes = append(e.DeviceNodes, d)
		}
	}
	if rng.Intn(3) > 0 {
		for i := 1 + rng.Intn(4); i > 0; i-- {
			m := &specs.Mount{HostPath: "/edit" + fmt.Sprint(i), ContainerPath: applyDests[rng.Intn(len(applyDests))]}
			if rng.Intn(2) == 0 {
				m.Options = []string{"rw", "nosuid"}
				m.Type = "bind"
			}
			e.Mounts = append(e.Mounts, m)
		}
	}
	if rng.Intn(3) > 0 {
		names := []string{"prestart", "createRuntime", "createContainer", "startContainer", "poststart", "poststop"}
		for i := 1 + rng.Intn(4); i > 0; i-- {
			h := &specs.Hook{HookName: names[rng.Intn(len(names))], Path: "/bin/hook" + fmt.Sprint(i)}
			if rng.Intn(2) == 0 {
				h.Args, h.Env, h.Timeout = []string{"hook", fmt.Sprint(i)}, []string{"H=1"}, intp(i)
			}
			e.Hooks = append(e.Hooks, h)
			if rng.Intn(3) == 0 {
				// the very same hook once more (two devices of one vendor bring it), and hooks the OCI spec may hold already
				dup := *h
				e.Hooks = append(e.Hooks, &dup)
			}
		}
		if rng.Intn(3) == 0 {
			e.Hooks = append(e.Hooks, &specs.Hook{HookName: "prestart", Path: "/bin/pre"}, &specs.Hook{HookName: "poststop", Path: "/bin/stop", Args: []string{"stop"}},
				&specs.Hook{HookName: "createRuntime", Path: "/bin/cr", Timeout: intp(3)})
		}
		if rng.Intn(25) == 0 {
			e.Hooks = append(e.Hooks, &specs.Hook{HookName: "bogus", Path: "/x"})
		}
	}
	if rng.Intn(4) == 0 {
		e.IntelRdt = &specs.IntelRdt{ClosID: "new", MemBwSchema: "MB:0=10", EnableCMT: rng.Intn(2) == 0}
	}
	if rng.Intn(3) == 0 {
		for i := 1 + rng.Intn(4); i > 0; i-- {
			e.AdditionalGIDs = append(e.AdditionalGIDs, uint32(rng.Intn(5)))
		}
	}
	return e
}

// ---- canonical images

func ociToProto(s *oci.Spec) map[string]any {
	out := map[string]any{"hasProcess": s.Process != nil}
	if s.Process != nil {
		out["env"] = hxList(s.Process.Env)
		out["uid"], out["gid"] = s.Process.User.UID, s.Process.User.GID
		g := []any{}
		for _, x := range s.Process.User.AdditionalGids {
			g = append(g, x)
		}
		out["addGids"] = g
	}
	if s.Linux != nil {
		var devs []any
		for _, d := range s.Linux.Devices {
			var fm any
			if d.FileMode != nil {
				fm = uint32(*d.FileMode)
			}
			devs = append(devs, map[string]any{"path": hx(d.Path), "type": hx(d.Type), "major": d.Major, "minor": d.Minor,
				"fileMode": fm, "uid": optU32(d.UID), "gid": optU32(d.GID)})
		}
		out["devices"] = devs
		if s.Linux.Resources != nil {
			var rules []any
			for _, r := range s.Linux.Resources.Devices {
				var maj, min any
				if r.Major != nil {
					maj = *r.Major
				}
				if r.Minor != nil {
					min = *r.Minor
				}
				rules = append(rules, map[string]any{"allow": r.Allow, "type": hx(r.Type), "major": maj, "minor": min, "access": hx(r.Access)})
			}
			out["rules"] = rules
		}
		if r := s.Linux.IntelRdt; r != nil {
			out["rdt"] = map[string]any{"closID": hx(r.ClosID), "l3CacheSchema": hx(r.L3CacheSchema), "memBwSchema": hx(r.MemBwSchema),
				"enableCMT": r.EnableCMT, "enableMBM": r.EnableMBM}
		}
	}
	var ms []any
	for _, m := range s.Mounts {
		ms = append(ms, map[string]any{"destination": hx(m.Destination), "type": hx(m.Type), "source": hx(m.Source), "options": hxList(m.Options)})
	}
	out["mounts"] = ms
	if s.Hooks != nil {
		hl := func(l []oci.Hook) []any {
			var o []any
			for _, h := range l {
				var to any
				if h.Timeout != nil {
					to = *h.Timeout
				}
				o = append(o, map[string]any{"path": hx(h.Path), "args": hxList(h.Args), "env": hxList(h.Env), "timeout": to})
			}
			return o
		}
		out["prestart"], out["createRuntime"], out["createContainer"] = hl(s.Hooks.Prestart), hl(s.Hooks.CreateRuntime), hl(s.Hooks.CreateContainer)
		out["startContainer"], out["poststart"], out["poststop"] = hl(s.Hooks.StartContainer), hl(s.Hooks.Poststart), hl(s.Hooks.Poststop)
	}
	return out
}

// frameImage: the OCI spec with every modelled section blanked and nil/zero pointers identified.
func frameImage(s *oci.Spec) string {
	b, _ := json.Marshal(s)
	var c oci.Spec
	_ = json.Unmarshal(b, &c)
	c.Mounts = nil
	if c.Process != nil {
		c.Process.Env = nil
		c.Process.User.AdditionalGids = nil
		if reflect.DeepEqual(*c.Process, oci.Process{}) {
			c.Process = nil
		}
	}
	if c.Linux != nil {
		c.Linux.Devices = nil
		c.Linux.IntelRdt = nil
		if c.Linux.Resources != nil {
			c.Linux.Resources.Devices = nil
			if reflect.DeepEqual(*c.Linux.Resources, oci.LinuxResources{}) {
				c.Linux.Resources = nil
			}
		}
		if reflect.DeepEqual(*c.Linux, oci.Linux{}) {
			c.Linux = nil
		}
	}
	c.Hooks = nil
	out, _ := json.Marshal(&c)
	return string(out)
}

func (applyStream) Generate(rng *rand.Rand, tier string, emit func(Case)) {
	n := 1500
	if tier == "thorough" {
		n = 40000
	}
	for i := 0; i < n; i++ {
		o := genOci(rng)
		e := genEdits(rng)
		if i%10 == 0 {
			// large lists (library sorting and merging must not depend on size): 8-24 existing mounts of
			// mixed depth with many ties, 2-10 mounts in the edits, long env and hook lists
			bigDest := func(k int) string {
				switch k % 4 {
				case 0:
					return fmt.Sprintf("/big%d", k)
				case 1:
					return fmt.Sprintf("/big/%d", k)
				case 2:
					return fmt.Sprintf("/big/deep/%d", k)
				}
				return fmt.Sprintf("/big/deep/er/%d/", k)
			}
			perm := rng.Perm(40)
			o.Mounts = nil
			for k := 8 + rng.Intn(17); k > 0; k-- {
				o.Mounts = append(o.Mounts, oci.Mount{Destination: bigDest(perm[k]), Source: fmt.Sprintf("/init%d", k), Type: "bind"})
			}
			e.Mounts = nil
			for k := 2 + rng.Intn(9); k > 0; k-- {
				e.Mounts = append(e.Mounts, &specs.Mount{HostPath: fmt.Sprintf("/edit%d", k), ContainerPath: bigDest(perm[25+rng.Intn(15)])})
			}
			for k := rng.Intn(20); k > 0; k-- {
				e.Env = append(e.Env, fmt.Sprintf("BIG%d=v%d", rng.Intn(12), k))
			}
			for k := rng.Intn(16); k > 0; k-- {
				e.Hooks = append(e.Hooks, &specs.Hook{HookName: []string{"prestart", "poststop", "createRuntime"}[rng.Intn(3)], Path: fmt.Sprintf("/bin/big%d", k)})
			}
		}
		oj, _ := json.Marshal(o)
		ej, _ := json.Marshal(e)
		emit(Case{"op": "apply", "ocijson": string(oj), "editsjson": string(ej), "hostrot": rng.Intn(len(hostOrder))})
	}
}

func (applyStream) Execute(c Case) {
	obs := map[string]any{"panic": false, "err": false, "frame": true}
	c["obs"] = obs
	rot := kindIdx(c["hostrot"])
	if !setupHostNodes(rot) {
		skip("mknod not permitted: host-stat cases run without device nodes")
	}
	defer os.RemoveAll(applyRoot)
	var o oci.Spec
	var e specs.ContainerEdits
	_ = json.Unmarshal([]byte(c["ocijson"].(string)), &o)
	_ = json.Unmarshal([]byte(c["editsjson"].(string)), &e)
	c["oci"] = ociToProto(&o)
	c["edits"] = editsToProto(&e)
	c["host"] = hostView(rot)
	before := frameImage(&o)
	defer func() {
		if r := recover(); r != nil {
			obs["panic"] = true
		}
	}()
	// a prelude on a scratch copy of the OCI spec: the same edit object is applied there first, then foreign edits
	// overwrite what it set (another RDT class, the same variables, paths and destinations with other values).
	// Applying edits must not tie the edit object to the OCI spec it was applied to: the application below -
	// the one that is observed - is that of the edits as given
	func() {
		defer func() { _ = recover() }()
		var scratch oci.Spec
		_ = json.Unmarshal([]byte(c["ocijson"].(string)), &scratch)
		if (&cdi.ContainerEdits{ContainerEdits: &e}).Apply(&scratch) != nil {
			return
		}
		foreign := specs.ContainerEdits{Env: []string{"FOREIGN=1"}, IntelRdt: &specs.IntelRdt{ClosID: "foreign-class", L3CacheSchema: "L3:0=1", EnableMBM: true},
			AdditionalGIDs: []uint32{4242}, Hooks: []*specs.Hook{{HookName: "poststop", Path: "/bin/foreign"}}}
		for _, ev := range e.Env {
			if i := strings.IndexByte(ev, '='); i > 0 {
				foreign.Env = append(foreign.Env, ev[:i]+"=foreign")
			}
		}
		for _, m := range e.Mounts {
			foreign.Mounts = append(foreign.Mounts, &specs.Mount{HostPath: "/foreign", ContainerPath: m.ContainerPath, Options: []string{"foreign"}})
		}
		for _, d := range e.DeviceNodes {
			foreign.DeviceNodes = append(foreign.DeviceNodes, &specs.DeviceNode{Path: d.Path, Type: "c", Major: 77, Minor: 7, Permissions: "m"})
		}
		_ = (&cdi.ContainerEdits{ContainerEdits: &foreign}).Apply(&scratch)
	}()
	err := (&cdi.ContainerEdits{ContainerEdits: &e}).Apply(&o)
	obs["err"] = err != nil
	if err == nil {
		obs["result"] = ociToProto(&o)
		obs["frame"] = frameImage(&o) == before
	}
}
