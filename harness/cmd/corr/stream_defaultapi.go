package main

import (
	"encoding/json"
	"math/rand"
)

// defaultAPIStream — the package-level functions of pkg/cdi (cdi.Configure / Refresh / GetErrors /
// InjectDevices on the default cache, in a child process) against the methods of an explicitly created
// cache on the same directories.  Shared by C02, C04 and C20.
type defaultAPIStream struct{}

func init() { register(defaultAPIStream{}) }

func (defaultAPIStream) Name() string          { return "defaultapi" }
func (defaultAPIStream) TrivialTags() []string { return nil }

func (defaultAPIStream) Generate(rng *rand.Rand, tier string, emit func(Case)) {
	// the package-level functions (cdi.Configure / Refresh / GetErrors / InjectDevices) against the methods
	// of an explicitly created cache, on generated directory layouts
	nl := 10
	if tier == "thorough" {
		nl = 60
	}
	for i := 0; i < nl; i++ {
		l := genLayout(rng)
		if i%2 == 0 {
			l = genCleanLayout(rng)
		}
		lj, _ := json.Marshal(l)
		var lm map[string]any
		_ = json.Unmarshal(lj, &lm)
		var req []any
		for k := 1 + rng.Intn(3); k > 0; k-- {
			req = append(req, poolVendors[rng.Intn(2)]+"/"+poolClasses[rng.Intn(2)]+"="+poolDevs[rng.Intn(3)])
		}
		emit(Case{"op": "defaultapi", "layout": lm, "req": req, "listed": rng.Intn(2) == 0})
		if i%3 == 0 {
			emit(Case{"op": "defaultapi", "layout": lm, "req": []any{}, "listed": false, "nilspec": true})
			emit(Case{"op": "defaultapi", "layout": lm, "req": req, "listed": true, "nilspec": true})
		}
	}
}

func (defaultAPIStream) Execute(c Case) { reconfStream{}.Execute(c) }

var _ = json.Marshal
