package main

import (
	"strings"
	"encoding/json"
	"fmt"
	"math/rand"
	"os"
	"path/filepath"

	oci "github.com/opencontainers/runtime-spec/specs-go"
	"golang.org/x/sys/unix"
	"tags.cncf.io/container-device-interface/pkg/cdi"
	specs "tags.cncf.io/container-device-interface/specs-go"
)

// purityStream — C14: injection must not write into the cache; host attributes are
// read at every injection; a cached Spec stays writable.
type purityStream struct{}

func init() { register(purityStream{}) }

func (purityStream) Name() string { return "purity" }
func (purityStream) TrivialTags() []string {
	return []string{"nodes0", "nodes1", "nodes2", "nodes3", "nodes4"}
}

// per-process scratch root: concurrent runs of the harness must not share a tree
var purityRoot = scratchRoot("/tmp/cdi-verif-purity")

// a host state: name -> kind index into hostKinds
var hostKinds = []hostNode{{"c", 1, 3}, {"c", 226, 7}, {"b", 7, 1}, {"b", 8, 16}, {"p", 0, 0}, {"other", 0, 0}, {"missing", 0, 0}}
var purityNames = []string{"n0", "n1", "n2"}

type purityNode struct {
	Name     string `json:"name"`     // host node name
	HostPath bool   `json:"hostpath"` // use hostPath (else container path = host path)
	Type     string `json:"type"`
	Major    int64  `json:"major"`
	Minor    int64  `json:"minor"`
}

func (purityStream) Generate(rng *rand.Rand, tier string, emit func(Case)) {
	n := 200
	if tier == "thorough" {
		n = 5000
	}
	for i := 0; i < n; i++ {
		var nodes []purityNode
		perm := rng.Perm(len(purityNames))
		for k := 1 + rng.Intn(3); k > 0; k-- {
			pn := purityNode{Name: purityNames[perm[k-1]], HostPath: rng.Intn(2) == 0}
			switch rng.Intn(5) {
			case 0:
				pn.Type = []string{"c", "b", "p", "u"}[rng.Intn(4)]
			case 1:
				pn.Type = "c"
				pn.Major, pn.Minor = int64(1+rng.Intn(100)), int64(rng.Intn(100))
			}
			nodes = append(nodes, pn)
		}
		h1, h2 := map[string]any{}, map[string]any{}
		for _, nm := range purityNames {
			h1[nm] = rng.Intn(5) // mostly existing devices first
			h2[nm] = rng.Intn(len(hostKinds))
			if rng.Intn(3) == 0 {
				h2[nm] = h1[nm]
			}
		}
		nj, _ := json.Marshal(nodes)
		emit(Case{"op": "purity", "nodesjson": string(nj), "h1": h1, "h2": h2, "mode": []string{"inject", "deviceapply", "specapply"}[rng.Intn(3)]})
	}
	// whole-Spec image: a Spec with edits of every kind at Spec and device level, injected several times
	// into OCI specs of different process users; the cache image must not change and every injection
	// must equal the same injection on a fresh cache
	for i := 0; i < n/2; i++ {
		sp := &specs.Spec{Version: specs.CurrentVersion, Kind: "vendor.com/class"}
		if rng.Intn(2) == 0 {
			sp.ContainerEdits.IntelRdt = &specs.IntelRdt{ClosID: "spec", L3CacheSchema: "L3:0=f"}
		}
		if rng.Intn(2) == 0 {
			sp.ContainerEdits.Env = []string{"SPEC=1"}
			sp.ContainerEdits.Hooks = []*specs.Hook{{HookName: "prestart", Path: "/bin/spec"}}
		}
		if rng.Intn(3) == 0 {
			sp.ContainerEdits.DeviceNodes = []*specs.DeviceNode{{Path: "/dev/specnode", Type: "c", Major: 5, Minor: 1}}
		}
		if rng.Intn(3) == 0 {
			sp.ContainerEdits.AdditionalGIDs = [][]uint32{{0, 44}, {44, 0, 45}, {9}}[rng.Intn(3)]
		}
		for d := 0; d < 3; d++ {
			e := specs.ContainerEdits{Env: []string{fmt.Sprintf("DEV%d=1", d)}}
			if rng.Intn(2) == 0 {
				e.IntelRdt = &specs.IntelRdt{ClosID: fmt.Sprintf("dev%d", d), MemBwSchema: "MB:0=10", EnableCMT: d%2 == 0}
			}
			if rng.Intn(2) == 0 {
				nd := &specs.DeviceNode{Path: fmt.Sprintf("/dev/node%d", d), Type: "c", Major: int64(10 + d), Minor: 0}
				if rng.Intn(3) == 0 {
					// several devices of the Spec bring the same node, each with its own access rights
					nd.Path, nd.Major = "/dev/shared", 9
					nd.Permissions = []string{"rw", "r", "m", "rwm"}[(d+rng.Intn(2))%4]
				}
				switch rng.Intn(4) {
				case 0:
					nd.UID = u32p(7)
				case 1:
					nd.GID = u32p(8)
				case 2:
					if nd.Permissions == "" {
						nd.Permissions = "rw"
					}
				}
				if rng.Intn(2) == 0 {
					m := []os.FileMode{0o660, 0o20660, 0o100644, os.ModeCharDevice | 0o600, 0o7777}[rng.Intn(5)]
					nd.FileMode = &m
				}
				e.DeviceNodes = []*specs.DeviceNode{nd}
			}
			if rng.Intn(3) == 0 {
				// (container paths that are legal but not in their clean form: what the Spec says stays what the Spec says)
				cp := strings.ReplaceAll([]string{"/cN", "/cN/", "/mnt//cN", "/mnt/./cN/data/", "/cN/../cN-up"}[rng.Intn(5)], "N", fmt.Sprint(d))
				e.Mounts = []*specs.Mount{{HostPath: "/h", ContainerPath: cp, Options: []string{"ro"}}}
				e.AdditionalGIDs = [][]uint32{{uint32(100 + d)}, {0, uint32(100 + d), 7}, {5, 0, 0, 6}}[rng.Intn(3)]
			}
			if rng.Intn(3) == 0 {
				e.Hooks = []*specs.Hook{{HookName: "poststop", Path: fmt.Sprintf("/bin/dev%d", d), Args: []string{"x"}, Env: []string{"H=1"}}}
			}
			sp.Devices = append(sp.Devices, specs.Device{Name: fmt.Sprintf("d%d", d), ContainerEdits: e})
		}
		var seq []any
		for k := 2 + rng.Intn(3); k > 0; k-- {
			var devs []any
			for _, d := range rng.Perm(3)[:1+rng.Intn(3)] {
				devs = append(devs, fmt.Sprintf("vendor.com/class=d%d", d))
			}
			seq = append(seq, map[string]any{"devs": devs, "uid": []int{0, 1000, 2000}[rng.Intn(3)], "gid": []int{0, 1000, 2000}[rng.Intn(3)], "process": rng.Intn(5) > 0})
		}
		sj, _ := json.Marshal(sp)
		cs := Case{"op": "image", "specjson": string(sj), "seq": seq}
		if i%2 == 0 {
			// a second Spec file of another kind with Spec-level edits of its own: requests that span both files
			// must come out the same every time (and the same as on a fresh cache)
			sp2 := &specs.Spec{Version: specs.CurrentVersion, Kind: "other.com/class",
				ContainerEdits: specs.ContainerEdits{Env: []string{"SPEC=2", "OTHER=1"}, Hooks: []*specs.Hook{{HookName: "prestart", Path: "/bin/other"}}},
				Devices:        []specs.Device{{Name: "o0", ContainerEdits: specs.ContainerEdits{Env: []string{"O0=1"}}}}}
			if sp.ContainerEdits.Env == nil {
				sp.ContainerEdits.Env = []string{"SPEC=1"}
				sj, _ = json.Marshal(sp)
				cs["specjson"] = string(sj)
			}
			s2, _ := json.Marshal(sp2)
			cs["spec2json"] = string(s2)
			for _, st := range seq {
				m := st.(map[string]any)
				m["devs"] = append(m["devs"].([]any), "other.com/class=o0")
			}
		}
		emit(cs)
	}
}

func kindIdx(v any) int {
	switch t := v.(type) {
	case int:
		return t
	case float64:
		return int(t)
	case json.Number:
		i, _ := t.Int64()
		return int(i)
	}
	return 0
}

func setHost(state map[string]any) []any {
	dir := filepath.Join(purityRoot, "dev")
	_ = os.RemoveAll(dir)
	_ = os.MkdirAll(dir, 0o755)
	var view []any
	for _, nm := range purityNames {
		k := hostKinds[kindIdx(state[nm])%len(hostKinds)]
		p := filepath.Join(dir, nm)
		switch k.Kind {
		case "c":
			_ = unix.Mknod(p, unix.S_IFCHR|0o600, int(unix.Mkdev(k.Major, k.Minor)))
		case "b":
			_ = unix.Mknod(p, unix.S_IFBLK|0o600, int(unix.Mkdev(k.Major, k.Minor)))
		case "p":
			_ = unix.Mkfifo(p, 0o600)
		case "other":
			_ = os.WriteFile(p, []byte("x"), 0o644)
		}
		if k.Kind != "missing" {
			view = append(view, map[string]any{"path": hx(p), "kind": k.Kind, "major": k.Major, "minor": k.Minor})
		}
	}
	if view == nil {
		view = []any{}
	}
	return view
}

func nodesProto(l []*specs.DeviceNode) []any {
	e := editsToProto(&specs.ContainerEdits{DeviceNodes: l})
	return e["deviceNodes"].([]any)
}

func cacheSpecImage(cache *cdi.Cache) string {
	var parts []any
	for _, v := range cache.ListVendors() {
		for _, sp := range cache.GetVendorSpecs(v) {
			parts = append(parts, specToProto(sp.Spec))
		}
	}
	for _, q := range cache.ListDevices() {
		if d := cache.GetDevice(q); d != nil {
			parts = append(parts, editsToProto(&d.ContainerEdits))
		}
	}
	b, _ := json.Marshal(parts)
	return string(b)
}

func (purityStream) Execute(c Case) {
	obs := map[string]any{"panic": false, "filled1": nil, "filled2": nil, "cacheafter": []any{}, "writeback": false}
	c["obs"] = obs
	_ = os.RemoveAll(purityRoot)
	defer os.RemoveAll(purityRoot)
	specDir := filepath.Join(purityRoot, "cdi")
	_ = os.MkdirAll(specDir, 0o755)
	if c["op"] == "image" {
		obs = map[string]any{"panic": false, "cacheunchanged": false, "repeatable": true, "writeback": false, "injections": 0}
		c["obs"] = obs
		defer func() {
			if r := recover(); r != nil {
				obs["panic"] = true
			}
		}()
		_ = os.WriteFile(filepath.Join(specDir, "s.json"), []byte(c["specjson"].(string)), 0o644)
		if s2, ok := c["spec2json"].(string); ok {
			_ = os.WriteFile(filepath.Join(specDir, "t.json"), []byte(s2), 0o644)
		}
		cache, _ := cdi.NewCache(cdi.WithSpecDirs(specDir), cdi.WithAutoRefresh(false))
		before := cacheSpecImage(cache)
		seq, _ := c["seq"].([]any)
		n := 0
		for _, st := range seq {
			m, _ := st.(map[string]any)
			var devs []string
			for _, d := range m["devs"].([]any) {
				devs = append(devs, d.(string))
			}
			mk := func() *oci.Spec {
				o := &oci.Spec{Version: "1.0.2"}
				if p, _ := m["process"].(bool); p {
					o.Process = &oci.Process{User: oci.User{UID: uint32(kindIdx(m["uid"])), GID: uint32(kindIdx(m["gid"]))}}
				}
				return o
			}
			o1, o2 := mk(), mk()
			// first a request that resolves these devices and then fails on an unknown name: nothing of it may stay behind
			_, _ = cache.InjectDevices(mk(), append(append([]string{}, devs...), "unknown.com/class=none")...)
			_, e1 := cache.InjectDevices(o1, devs...)
			fresh, _ := cdi.NewCache(cdi.WithSpecDirs(specDir), cdi.WithAutoRefresh(false))
			_, e2 := fresh.InjectDevices(o2, devs...)
			if (e1 == nil) != (e2 == nil) || jsonImage(o1) != jsonImage(o2) {
				obs["repeatable"] = false
				obs["diverged"] = fmt.Sprintf("step %d: %s vs fresh %s", n, jsonImage(o1), jsonImage(o2))
			}
			// the devices of the request applied one after the other onto ONE OCI spec (what is set by one edit is
			// overwritten by the next - in the OCI spec, never in the cached Specs), against the same on a fresh cache
			accC, accF := mk(), mk()
			for _, q := range devs {
				if cd, fd := cache.GetDevice(q), fresh.GetDevice(q); cd != nil && fd != nil {
					_, _ = cd.ApplyEdits(accC), fd.ApplyEdits(accF)
				}
			}
			if jsonImage(accC) != jsonImage(accF) {
				obs["repeatable"] = false
				obs["diverged"] = fmt.Sprintf("step %d: devices applied onto one OCI spec: %s vs fresh %s", n, jsonImage(accC), jsonImage(accF))
			}
			// the edits of the cached objects applied directly (Device.ApplyEdits, Spec.ApplyEdits), twice, against
			// the same on a fresh cache
			for _, q := range devs {
				cd, fd := cache.GetDevice(q), fresh.GetDevice(q)
				if cd == nil || fd == nil {
					continue
				}
				for rep := 0; rep < 2; rep++ {
					a, b, sa, sb := mk(), mk(), mk(), mk()
					ea, eb := cd.ApplyEdits(a), fd.ApplyEdits(b)
					esa, esb := cd.GetSpec().ApplyEdits(sa), fd.GetSpec().ApplyEdits(sb)
					if (ea == nil) != (eb == nil) || jsonImage(a) != jsonImage(b) || (esa == nil) != (esb == nil) || jsonImage(sa) != jsonImage(sb) {
						obs["repeatable"] = false
						obs["diverged"] = fmt.Sprintf("step %d: ApplyEdits of cached %s (round %d): %s / %s vs fresh %s / %s", n, q, rep, jsonImage(a), jsonImage(sa), jsonImage(b), jsonImage(sb))
					}
				}
			}
			if e1 == nil {
				n++
			}
		}
		obs["injections"] = n
		obs["cacheunchanged"] = cacheSpecImage(cache) == before
		if ss := cache.GetVendorSpecs("vendor.com"); len(ss) == 1 {
			obs["writeback"] = cache.WriteSpec(ss[0].Spec, "writeback.json") == nil
		}
		// the same request repeated on the same cache gives the same OCI spec every time
		if len(seq) > 0 {
			m, _ := seq[len(seq)-1].(map[string]any)
			var devs []string
			for _, d := range m["devs"].([]any) {
				devs = append(devs, d.(string))
			}
			first := ""
			for k := 0; k < 24 && obs["repeatable"] == true; k++ {
				o := &oci.Spec{Version: "1.0.2"}
				if _, err := cache.InjectDevices(o, devs...); err != nil {
					break
				}
				if img := jsonImage(o); first == "" {
					first = img
				} else if img != first {
					obs["repeatable"] = false
					obs["diverged"] = "the same request gave two different OCI specs: " + first + " / " + img
				}
			}
		}
		return
	}
	var pns []purityNode
	_ = json.Unmarshal([]byte(c["nodesjson"].(string)), &pns)
	h1, _ := c["h1"].(map[string]any)
	h2, _ := c["h2"].(map[string]any)
	mode, _ := c["mode"].(string)
	var nodes []*specs.DeviceNode
	version := "0.3.0"
	for i, pn := range pns {
		hp := filepath.Join(purityRoot, "dev", pn.Name)
		d := &specs.DeviceNode{Type: pn.Type, Major: pn.Major, Minor: pn.Minor}
		if pn.HostPath {
			d.Path, d.HostPath = fmt.Sprintf("/dev/ctr%d", i), hp
			version = "0.5.0"
		} else {
			d.Path = hp
		}
		nodes = append(nodes, d)
	}
	c["nodes"] = nodesProto(nodes)
	raw := &specs.Spec{Version: version, Kind: "vendor.com/class"}
	dev := specs.Device{Name: "d0"}
	if mode == "specapply" {
		raw.ContainerEdits.DeviceNodes = nodes
		dev.ContainerEdits.Env = []string{"A=b"}
	} else {
		dev.ContainerEdits.DeviceNodes = nodes
	}
	raw.Devices = []specs.Device{dev}
	data, _ := json.Marshal(raw)
	_ = os.WriteFile(filepath.Join(specDir, "s.json"), data, 0o644)
	c["host1"] = setHost(h1)
	defer func() {
		if r := recover(); r != nil {
			obs["panic"] = true
		}
	}()
	cache, _ := cdi.NewCache(cdi.WithSpecDirs(specDir), cdi.WithAutoRefresh(false))
	_ = cache.Refresh()
	const q = "vendor.com/class=d0"
	cachedNodes := func() []*specs.DeviceNode {
		if mode == "specapply" {
			if ss := cache.GetVendorSpecs("vendor.com"); len(ss) == 1 {
				return ss[0].ContainerEdits.DeviceNodes
			}
			return nil
		}
		if d := cache.GetDevice(q); d != nil {
			return d.ContainerEdits.DeviceNodes
		}
		return nil
	}
	inject := func() any {
		o := &oci.Spec{Version: "1.0.2"}
		var err error
		switch mode {
		case "inject":
			_, err = cache.InjectDevices(o, q)
		case "deviceapply":
			if d := cache.GetDevice(q); d != nil {
				err = d.ApplyEdits(o)
			} else {
				err = fmt.Errorf("unresolved")
			}
		case "specapply":
			if ss := cache.GetVendorSpecs("vendor.com"); len(ss) == 1 {
				err = ss[0].ApplyEdits(o)
			} else {
				err = fmt.Errorf("no spec")
			}
		}
		if err != nil {
			return nil
		}
		out := []any{}
		if o.Linux != nil {
			for _, d := range o.Linux.Devices {
				out = append(out, map[string]any{"path": hx(d.Path), "type": hx(d.Type), "major": d.Major, "minor": d.Minor})
			}
		}
		return out
	}
	obs["filled1"] = inject()
	c["host2"] = setHost(h2)
	obs["filled2"] = inject()
	obs["cacheafter"] = nodesProto(cachedNodes())
	if ss := cache.GetVendorSpecs("vendor.com"); len(ss) == 1 {
		obs["writeback"] = cache.WriteSpec(ss[0].Spec, "writeback.json") == nil
	}
}
