package main

import (
	"encoding/json"
	"fmt"
	"math/rand"
	"os"
	"path/filepath"

	oci "github.com/opencontainers/runtime-spec/specs-go"
	"golang.org/x/sys/unix"
	"tags.cncf.io/container-device-interface/pkg/cdi"
	specs "tags.cncf.io/container-device-interface/specs-go"
)

// purityStream — C14: injection must not write into the cache; host attributes are
// read at every injection; a cached Spec stays writable.
type purityStream struct{}

func init() { register(purityStream{}) }

func (purityStream) Name() string { return "purity" }
func (purityStream) TrivialTags() []string {
	return []string{"nodes0", "nodes1", "nodes2", "nodes3", "nodes4"}
}

const purityRoot = "/tmp/cdi-verif-purity"

// a host state: name -> kind index into hostKinds
var hostKinds = []hostNode{{"c", 1, 3}, {"c", 226, 7}, {"b", 7, 1}, {"b", 8, 16}, {"p", 0, 0}, {"other", 0, 0}, {"missing", 0, 0}}
var purityNames = []string{"n0", "n1", "n2"}

type purityNode struct {
	Name     string `json:"name"`     // host node name
	HostPath bool   `json:"hostpath"` // use hostPath (else container path = host path)
	Type     string `json:"type"`
	Major    int64  `json:"major"`
	Minor    int64  `json:"minor"`
}

func (purityStream) Generate(rng *rand.Rand, tier string, emit func(Case)) {
	n := 200
	if tier == "thorough" {
		n = 5000
	}
	for i := 0; i < n; i++ {
		var nodes []purityNode
		perm := rng.Perm(len(purityNames))
		for k := 1 + rng.Intn(3); k > 0; k-- {
			pn := purityNode{Name: purityNames[perm[k-1]], HostPath: rng.Intn(2) == 0}
			switch rng.Intn(5) {
			case 0:
				pn.Type = []string{"c", "b", "p", "u"}[rng.Intn(4)]
			case 1:
				pn.Type = "c"
				pn.Major, pn.Minor = int64(1+rng.Intn(100)), int64(rng.Intn(100))
			}
			nodes = append(nodes, pn)
		}
		h1, h2 := map[string]any{}, map[string]any{}
		for _, nm := range purityNames {
			h1[nm] = rng.Intn(5) // mostly existing devices first
			h2[nm] = rng.Intn(len(hostKinds))
			if rng.Intn(3) == 0 {
				h2[nm] = h1[nm]
			}
		}
		nj, _ := json.Marshal(nodes)
		emit(Case{"op": "purity", "nodesjson": string(nj), "h1": h1, "h2": h2, "mode": []string{"inject", "deviceapply", "specapply"}[rng.Intn(3)]})
	}
}

func kindIdx(v any) int {
	switch t := v.(type) {
	case int:
		return t
	case float64:
		return int(t)
	case json.Number:
		i, _ := t.Int64()
		return int(i)
	}
	return 0
}

func setHost(state map[string]any) []any {
	dir := filepath.Join(purityRoot, "dev")
	_ = os.RemoveAll(dir)
	_ = os.MkdirAll(dir, 0o755)
	var view []any
	for _, nm := range purityNames {
		k := hostKinds[kindIdx(state[nm])%len(hostKinds)]
		p := filepath.Join(dir, nm)
		switch k.Kind {
		case "c":
			_ = unix.Mknod(p, unix.S_IFCHR|0o600, int(unix.Mkdev(k.Major, k.Minor)))
		case "b":
			_ = unix.Mknod(p, unix.S_IFBLK|0o600, int(unix.Mkdev(k.Major, k.Minor)))
		case "p":
			_ = unix.Mkfifo(p, 0o600)
		case "other":
			_ = os.WriteFile(p, []byte("x"), 0o644)
		}
		if k.Kind != "missing" {
			view = append(view, map[string]any{"path": hx(p), "kind": k.Kind, "major": k.Major, "minor": k.Minor})
		}
	}
	if view == nil {
		view = []any{}
	}
	return view
}

func nodesProto(l []*specs.DeviceNode) []any {
	e := editsToProto(&specs.ContainerEdits{DeviceNodes: l})
	return e["deviceNodes"].([]any)
}

func (purityStream) Execute(c Case) {
	obs := map[string]any{"panic": false, "filled1": nil, "filled2": nil, "cacheafter": []any{}, "writeback": false}
	c["obs"] = obs
	_ = os.RemoveAll(purityRoot)
	defer os.RemoveAll(purityRoot)
	specDir := filepath.Join(purityRoot, "cdi")
	_ = os.MkdirAll(specDir, 0o755)
	var pns []purityNode
	_ = json.Unmarshal([]byte(c["nodesjson"].(string)), &pns)
	h1, _ := c["h1"].(map[string]any)
	h2, _ := c["h2"].(map[string]any)
	mode, _ := c["mode"].(string)
	var nodes []*specs.DeviceNode
	version := "0.3.0"
	for i, pn := range pns {
		hp := filepath.Join(purityRoot, "dev", pn.Name)
		d := &specs.DeviceNode{Type: pn.Type, Major: pn.Major, Minor: pn.Minor}
		if pn.HostPath {
			d.Path, d.HostPath = fmt.Sprintf("/dev/ctr%d", i), hp
			version = "0.5.0"
		} else {
			d.Path = hp
		}
		nodes = append(nodes, d)
	}
	c["nodes"] = nodesProto(nodes)
	raw := &specs.Spec{Version: version, Kind: "vendor.com/class"}
	dev := specs.Device{Name: "d0"}
	if mode == "specapply" {
		raw.ContainerEdits.DeviceNodes = nodes
		dev.ContainerEdits.Env = []string{"A=b"}
	} else {
		dev.ContainerEdits.DeviceNodes = nodes
	}
	raw.Devices = []specs.Device{dev}
	data, _ := json.Marshal(raw)
	_ = os.WriteFile(filepath.Join(specDir, "s.json"), data, 0o644)
	c["host1"] = setHost(h1)
	defer func() {
		if r := recover(); r != nil {
			obs["panic"] = true
		}
	}()
	cache, _ := cdi.NewCache(cdi.WithSpecDirs(specDir), cdi.WithAutoRefresh(false))
	_ = cache.Refresh()
	const q = "vendor.com/class=d0"
	cachedNodes := func() []*specs.DeviceNode {
		if mode == "specapply" {
			if ss := cache.GetVendorSpecs("vendor.com"); len(ss) == 1 {
				return ss[0].ContainerEdits.DeviceNodes
			}
			return nil
		}
		if d := cache.GetDevice(q); d != nil {
			return d.ContainerEdits.DeviceNodes
		}
		return nil
	}
	inject := func() any {
		o := &oci.Spec{Version: "1.0.2"}
		var err error
		switch mode {
		case "inject":
			_, err = cache.InjectDevices(o, q)
		case "deviceapply":
			if d := cache.GetDevice(q); d != nil {
				err = d.ApplyEdits(o)
			} else {
				err = fmt.Errorf("unresolved")
			}
		case "specapply":
			if ss := cache.GetVendorSpecs("vendor.com"); len(ss) == 1 {
				err = ss[0].ApplyEdits(o)
			} else {
				err = fmt.Errorf("no spec")
			}
		}
		if err != nil {
			return nil
		}
		out := []any{}
		if o.Linux != nil {
			for _, d := range o.Linux.Devices {
				out = append(out, map[string]any{"path": hx(d.Path), "type": hx(d.Type), "major": d.Major, "minor": d.Minor})
			}
		}
		return out
	}
	obs["filled1"] = inject()
	c["host2"] = setHost(h2)
	obs["filled2"] = inject()
	obs["cacheafter"] = nodesProto(cachedNodes())
	if ss := cache.GetVendorSpecs("vendor.com"); len(ss) == 1 {
		obs["writeback"] = cache.WriteSpec(ss[0].Spec, "writeback.json") == nil
	}
}
