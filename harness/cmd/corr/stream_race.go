package main

import (
	"bytes"
	"context"
	"encoding/json"
	"errors"
	"fmt"
	"io/fs"
	"math/rand"
	"os"
	"os/exec"
	"path/filepath"
	"regexp"
	"sort"
	"strings"
	"sync"
	"sync/atomic"
	"time"

	oci "github.com/opencontainers/runtime-spec/specs-go"
	"tags.cncf.io/container-device-interface/pkg/cdi"
	specs "tags.cncf.io/container-device-interface/specs-go"
)

// raceStream — C12: sets of public cache operations run concurrently (with the watcher
// goroutine and a directory that flips atomically between two states) inside a copy of
// this binary built with the race detector; every query / injection result is compared
// with the two admissible states; a watchdog detects hangs.
type raceStream struct{}

func init() {
	register(raceStream{})
	childModes["racer"] = childRacer
}

func (raceStream) Name() string          { return "race" }
func (raceStream) TrivialTags() []string { return nil }

var raceOps = []string{"Configure", "Refresh", "InjectDevices", "ListDevices", "GetDevice", "ListVendors", "ListClasses",
	"GetVendorSpecs", "GetSpecErrors", "GetErrors", "GetSpecDirectories", "GetSpecDirErrors", "WriteSpec", "RemoveSpec"}

func (raceStream) Generate(rng *rand.Rand, tier string, emit func(Case)) {
	iters := 150
	if tier == "thorough" {
		iters = 600
	}
	mk := func(ops []string, auto bool) {
		emit(Case{"op": "race", "ops": strs2any(ops), "iters": iters, "auto": auto, "seed": rng.Int63()})
	}
	// every operation against each of the operations that write shared state, and against itself
	writers := []string{"Configure", "Refresh"}
	for _, o := range raceOps {
		for _, w := range writers {
			mk([]string{o, w}, true)
		}
	}
	if tier == "thorough" {
		for i, a := range raceOps {
			for _, b := range raceOps[i:] {
				mk([]string{a, b}, rng.Intn(2) == 0)
			}
		}
	}
	// the watcher goroutine is the only writer
	for _, o := range []string{"ListDevices", "InjectDevices", "GetSpecDirErrors", "GetErrors", "WriteSpec", "RemoveSpec"} {
		mk([]string{o}, true)
	}
	// two writers of different files; caches being created while the directory changes; first use of the
	// package-level default cache from several goroutines at once
	mk([]string{"WriteSpec", "WriteSpec", "Refresh"}, true)
	mk([]string{"NewCache", "NewCache", "ListDevices"}, true)
	mk([]string{"DefaultCache", "DefaultCache", "DefaultCache", "DefaultCache"}, true)
	// a cache without any Spec directory (the operations' error paths)
	for _, ops := range [][]string{{"RemoveSpec", "ListDevices"}, {"WriteSpec", "GetErrors"}, {"RemoveSpec", "WriteSpec", "Configure", "Refresh", "InjectDevices"}} {
		emit(Case{"op": "race", "ops": strs2any(ops), "iters": iters, "auto": true, "nodirs": true, "seed": rng.Int63()})
	}
	// queries only, on an auto-refresh cache one of whose directories does not exist: every query tries to watch it
	// again (and records that it cannot) - the queries are writers of shared state, too
	for _, ops := range [][]string{{"ListDevices", "GetDevice"}, {"InjectDevices", "ListVendors", "GetErrors"}, {"ListDevices", "ListDevices", "GetVendorSpecs", "ListClasses"}} {
		emit(Case{"op": "race", "ops": strs2any(ops), "iters": iters, "auto": true, "missingdir": true, "seed": rng.Int63()})
	}
	// Spec files of the scanned directory are written and removed all the time while it is rescanned and listed: a
	// file that vanishes between the listing and the reading must not take anything else with it (the removed files
	// sort before the one that flips, so whatever is skipped after them shows)
	for _, auto := range []bool{false, true} {
		emit(Case{"op": "race", "ops": strs2any([]string{"RefreshList", "Churn", "Churn", "Churn", "Churn", "Churn", "Churn"}),
			"iters": iters, "millis": map[bool]int{false: 6000, true: 2000}[auto], "auto": auto, "seed": rng.Int63()})
	}
	// everything at once
	n := 2
	if tier == "thorough" {
		n = 12
	}
	for i := 0; i < n; i++ {
		mk(raceOps, i%2 == 0)
	}
	// random subsets
	for i := 0; i < 3*n; i++ {
		var ops []string
		for k := 2 + rng.Intn(4); k > 0; k-- {
			ops = append(ops, raceOps[rng.Intn(len(raceOps))])
		}
		mk(ops, rng.Intn(3) > 0)
	}
}

var raceFrame = regexp.MustCompile(`container-device-interface/pkg/cdi\.([A-Za-z0-9_().*]+)\(`)

// raceKey extracts, from the race detector's report, the cdi functions on top of the stacks.
func raceKey(stderr string) []string {
	set := map[string]bool{}
	for _, block := range strings.Split(stderr, "\n\n") {
		lines := strings.Split(block, "\n")
		head := false
		for _, ln := range lines {
			t := strings.TrimSpace(ln)
			if strings.HasPrefix(t, "Read at") || strings.HasPrefix(t, "Write at") || strings.HasPrefix(t, "Previous read at") || strings.HasPrefix(t, "Previous write at") {
				head = true
				continue
			}
			if head {
				if m := raceFrame.FindStringSubmatch(t); m != nil {
					set[strings.NewReplacer("(*Cache).", "Cache.", "(*watch).", "watch.").Replace(m[1])] = true
					break
				}
			}
		}
	}
	var out []string
	for k := range set {
		out = append(out, k)
	}
	sort.Strings(out)
	return out
}

var raceHangs int

func (raceStream) Execute(c Case) {
	obs := map[string]any{"race": false, "hang": false, "mixture": false, "crash": false}
	c["obs"] = obs
	bin := binPath("corr-race")
	if _, err := os.Stat(bin); err != nil {
		skip("race-detector build of the harness missing")
		return
	}
	if raceHangs >= 2 {
		// two runs already hung: the verdict is in, do not spend a deadline on every remaining case
		skip("skipped after two hangs")
		obs["skipped"] = true
		return
	}
	args, _ := json.Marshal(c)
	ctx, cancel := context.WithTimeout(context.Background(), 45*time.Second)
	defer cancel()
	cmd := exec.CommandContext(ctx, bin, "child", "racer", string(args))
	cmd.Env = append(os.Environ(), "GORACE=halt_on_error=1 exitcode=66")
	var stdout, stderr bytes.Buffer
	cmd.Stdout, cmd.Stderr = &stdout, &stderr
	err := cmd.Run()
	se := stderr.String()
	if ctx.Err() != nil || strings.Contains(se, "watchdog: hang") || strings.Contains(se, "all goroutines are asleep") {
		raceHangs++
	}
	switch {
	case ctx.Err() != nil:
		obs["hang"] = true
	case strings.Contains(se, "WARNING: DATA RACE"):
		obs["race"] = true
		obs["racefuncs"] = strs2any(raceKey(se))
		if len(se) > 6000 {
			se = se[:6000]
		}
		obs["report"] = se
	case strings.Contains(se, "all goroutines are asleep") || strings.Contains(se, "watchdog: hang"):
		obs["hang"] = true
	case err != nil:
		obs["crash"] = true
		if len(se) > 3000 {
			se = se[:3000]
		}
		obs["report"] = se
	}
	var res map[string]any
	if json.Unmarshal(stdout.Bytes(), &res) == nil {
		if m, _ := res["mixtures"].([]any); len(m) > 0 {
			obs["mixture"] = true
			obs["mixtures"] = m
		}
		obs["calls"], obs["sawA"], obs["sawB"] = res["calls"], res["sawA"], res["sawB"]
	}
}

// ---- the child: runs inside the -race build ----

func flipSpec(state string) []byte {
	n := 4
	if state == "B" {
		n = 6
	}
	s := &specs.Spec{Version: specs.CurrentVersion, Kind: "flip.com/dev"}
	for i := 0; i < n; i++ {
		s.Devices = append(s.Devices, specs.Device{Name: fmt.Sprintf("%s%d", strings.ToLower(state), i),
			ContainerEdits: specs.ContainerEdits{Env: []string{fmt.Sprintf("S%d=%s", i, state)}}})
	}
	b, _ := json.Marshal(s)
	return b
}

func flipNames(state string) []string {
	n := 4
	if state == "B" {
		n = 6
	}
	var out []string
	for i := 0; i < n; i++ {
		out = append(out, fmt.Sprintf("flip.com/dev=%s%d", strings.ToLower(state), i))
	}
	return out
}

func childRacer(args []string) int {
	var c struct {
		Ops        []string `json:"ops"`
		Iters      int      `json:"iters"`
		Auto       bool     `json:"auto"`
		NoDirs     bool     `json:"nodirs"`
		MissingDir bool     `json:"missingdir"`
		Millis     int      `json:"millis"`
		Seed       int64    `json:"seed"`
	}
	if err := json.Unmarshal([]byte(args[0]), &c); err != nil {
		fmt.Fprintln(os.Stderr, "racer: bad args")
		return 2
	}
	root, _ := os.MkdirTemp("", "cdi-verif-race-")
	defer os.RemoveAll(root)
	d0, d1 := filepath.Join(root, "static"), filepath.Join(root, "flip")
	_ = os.MkdirAll(d0, 0o755)
	_ = os.MkdirAll(d1, 0o755)
	st := &specs.Spec{Version: specs.CurrentVersion, Kind: "static.com/dev", Devices: []specs.Device{{Name: "s0",
		ContainerEdits: specs.ContainerEdits{Env: []string{"STATIC=1"}}}}}
	b, _ := json.Marshal(st)
	_ = os.WriteFile(filepath.Join(d0, "static.json"), b, 0o644)
	_ = os.WriteFile(filepath.Join(d1, "flip.json"), flipSpec("A"), 0o644)

	dirs := []string{d0, d1}
	if c.NoDirs {
		dirs = nil
	}
	if c.MissingDir {
		dirs = append(dirs, filepath.Join(root, "never-created"))
	}
	cache, _ := cdi.NewCache(cdi.WithSpecDirs(dirs...), cdi.WithAutoRefresh(c.Auto))
	defer func() { _ = cache.Configure(cdi.WithAutoRefresh(false)) }()

	aNames, bNames := flipNames("A"), flipNames("B")
	var mu sync.Mutex
	var mixtures []string
	var calls, sawA, sawB int64
	mix := func(format string, a ...any) {
		mu.Lock()
		if len(mixtures) < 5 {
			mixtures = append(mixtures, fmt.Sprintf(format, a...))
		}
		mu.Unlock()
	}
	classify := func(what string, names []string) {
		if c.NoDirs {
			return
		}
		var flip []string
		for _, n := range names {
			if strings.HasPrefix(n, "flip.com/") {
				flip = append(flip, n)
			}
		}
		sort.Strings(flip)
		switch strings.Join(flip, ",") {
		case strings.Join(aNames, ","):
			atomic.AddInt64(&sawA, 1)
		case strings.Join(bNames, ","):
			atomic.AddInt64(&sawB, 1)
		default:
			mix("%s: %v is neither state A nor state B", what, flip)
		}
	}

	var defaultSeen atomic.Pointer[cdi.Cache]
	var stop int32
	var wg, flipper sync.WaitGroup
	// the directory flips atomically between the two states (rename over the Spec file)
	flipper.Add(1)
	go func() {
		defer flipper.Done()
		state := "B"
		for atomic.LoadInt32(&stop) == 0 {
			tmp := filepath.Join(root, "next")
			_ = os.WriteFile(tmp, flipSpec(state), 0o644)
			_ = os.Rename(tmp, filepath.Join(d1, "flip.json"))
			if state == "A" {
				state = "B"
			} else {
				state = "A"
			}
			time.Sleep(200 * time.Microsecond)
		}
	}()
	// watchdog
	done := make(chan struct{})
	go func() {
		select {
		case <-done:
		case <-time.After(30 * time.Second):
			fmt.Fprintln(os.Stderr, "watchdog: hang")
			os.Exit(3)
		}
	}()

	extra := &specs.Spec{Version: specs.CurrentVersion, Kind: "extra.com/dev", Devices: []specs.Device{{Name: "x",
		ContainerEdits: specs.ContainerEdits{Env: []string{"X=1"}}}}}
	for ti, op := range c.Ops {
		wg.Add(1)
		go func(ti int, op string) {
			defer wg.Done()
			until := time.Now().Add(time.Duration(c.Millis) * time.Millisecond)
			for it := 0; (c.Millis == 0 && it < c.Iters) || (c.Millis > 0 && time.Now().Before(until)); it++ {
				atomic.AddInt64(&calls, 1)
				switch op {
				case "Configure":
					_ = cache.Configure(cdi.WithSpecDirs(dirs...), cdi.WithAutoRefresh(c.Auto || it%2 == 0))
				case "Refresh":
					_ = cache.Refresh()
				case "ListDevices":
					classify("ListDevices", cache.ListDevices())
				case "GetDevice":
					if d := cache.GetDevice(aNames[0]); d != nil {
						if len(d.ContainerEdits.Env) != 1 || d.ContainerEdits.Env[0] != "S0=A" {
							mix("GetDevice: %v", d.ContainerEdits.Env)
						}
					}
				case "InjectDevices":
					o := &oci.Spec{Process: &oci.Process{}}
					unresolved, err := cache.InjectDevices(o, aNames...)
					switch {
					case err == nil:
						if len(o.Process.Env) != len(aNames) {
							mix("InjectDevices: env %v after success", o.Process.Env)
						}
						atomic.AddInt64(&sawA, 1)
					case c.NoDirs || (len(unresolved) == len(aNames) && len(o.Process.Env) == 0):
						atomic.AddInt64(&sawB, 1)
					default:
						mix("InjectDevices: unresolved %v, env %v", unresolved, o.Process.Env)
					}
				case "ListVendors":
					_ = cache.ListVendors()
				case "ListClasses":
					_ = cache.ListClasses()
				case "GetVendorSpecs":
					for _, s := range cache.GetVendorSpecs("flip.com") {
						var names []string
						for _, d := range s.Devices {
							names = append(names, "flip.com/dev="+d.Name)
						}
						classify("GetVendorSpecs", names)
					}
				case "GetSpecErrors":
					for _, s := range cache.GetVendorSpecs("flip.com") {
						_ = cache.GetSpecErrors(s)
					}
				case "GetErrors":
					for range cache.GetErrors() {
					}
				case "GetSpecDirectories":
					if ds := cache.GetSpecDirectories(); len(ds) != len(dirs) {
						mix("GetSpecDirectories: %v", ds)
					}
				case "GetSpecDirErrors":
					for range cache.GetSpecDirErrors() {
					}
				case "NewCache":
					// construction races with the watcher goroutine it starts (the directory is flipping)
					nc, _ := cdi.NewCache(cdi.WithSpecDirs(dirs...), cdi.WithAutoRefresh(true))
					classify("NewCache+ListDevices", nc.ListDevices())
					_ = nc.Configure(cdi.WithAutoRefresh(false))
				case "DefaultCache":
					// every goroutine must get the same default cache, also at the very first use
					switch (ti + it) % 3 {
					case 0:
						_ = cdi.Configure(cdi.WithSpecDirs(dirs...), cdi.WithAutoRefresh(false))
					case 1:
						_ = cdi.Refresh()
					}
					dc := cdi.GetDefaultCache()
					if prev := defaultSeen.Swap(dc); prev != nil && prev != dc {
						mix("GetDefaultCache: two different default caches")
					}
				case "WriteSpec":
					// every writer writes its own file with its own content and reads it back
					own := &specs.Spec{Version: specs.CurrentVersion, Kind: fmt.Sprintf("extra%d.com/dev", ti), Devices: []specs.Device{{Name: "x",
						ContainerEdits: specs.ContainerEdits{Env: []string{fmt.Sprintf("WRITER=%d", ti), "PAD=" + strings.Repeat("p", 200*ti)}}}}}
					name := fmt.Sprintf("extra-%d.yaml", ti)
					if ti%2 == 1 {
						name = fmt.Sprintf("extra-%d.json", ti)
					}
					if err := cache.WriteSpec(own, name); err == nil && len(dirs) > 0 {
						got, rerr := cdi.ReadSpec(filepath.Join(dirs[len(dirs)-1], name), 0)
						if rerr != nil && errors.Is(rerr, fs.ErrNotExist) {
							continue // removed by a concurrent RemoveSpec
						}
						if rerr != nil || got.Kind != own.Kind || len(got.Devices) != 1 ||
							len(got.Devices[0].ContainerEdits.Env) != 2 || got.Devices[0].ContainerEdits.Env[0] != own.Devices[0].ContainerEdits.Env[0] {
							mix("WriteSpec: %s read back differs from what writer %d wrote (err %v)", name, ti, rerr)
						}
					}
					_ = extra
				case "RefreshList":
					// a rescan and the listing that follows it (with no other rescan in the set, what the listing shows
					// is what that scan published)
					_ = cache.Refresh()
					classify("Refresh+ListDevices", cache.ListDevices())
				case "Churn":
					// the life of a transient Spec: written, used for a moment, removed
					own := &specs.Spec{Version: specs.CurrentVersion, Kind: fmt.Sprintf("churn%d.com/dev", ti), Devices: []specs.Device{{Name: "x",
						ContainerEdits: specs.ContainerEdits{Env: []string{fmt.Sprintf("CHURN=%d", ti)}}}}}
					name := fmt.Sprintf("churn-%d-%d.json", ti, it%3)
					if err := cache.WriteSpec(own, name); err != nil {
						mix("Churn: WriteSpec failed: %v", err)
					}
					time.Sleep(time.Duration(50+(it%7)*40) * time.Microsecond)
					if err := cache.RemoveSpec(name); err != nil {
						mix("Churn: RemoveSpec failed: %v", err)
					}
				case "RemoveSpec":
					_ = cache.RemoveSpec(fmt.Sprintf("extra-%d.yaml", (ti+1)%len(c.Ops)))
				}
			}
		}(ti, op)
	}
	wg.Wait()
	atomic.StoreInt32(&stop, 1)
	flipper.Wait()
	close(done)
	if mixtures == nil {
		mixtures = []string{}
	}
	out, _ := json.Marshal(map[string]any{"mixtures": mixtures, "calls": calls, "sawA": sawA, "sawB": sawB})
	fmt.Println(string(out))
	return 0
}
