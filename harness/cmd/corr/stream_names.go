package main

import (
	"encoding/json"
	"fmt"
	"time"
	"math/rand"
	"os"
	"path/filepath"
	"strings"

	"tags.cncf.io/container-device-interface/pkg/cdi"
	specs "tags.cncf.io/container-device-interface/specs-go"
)

// namesStream — C16: name generators, WriteSpec/RemoveSpec path confinement and symmetry.
type namesStream struct{}

func init() { register(namesStream{}) }

func (namesStream) Name() string          { return "names" }
func (namesStream) TrivialTags() []string { return nil }

// per-process scratch root: concurrent runs of the harness must not share a tree
var namesRoot = scratchRoot("/tmp/cdi-verif-names")

var transientIDs = []string{"1", "abc", "a/b", "../../etc/passwd", "..", ".", "", ".json", "x.yaml", "a.b.c", "/", "//x//", "..json",
	"container-0123456789abcdef", "with space", "ü", "a/../b", "x.tmp", "y.yml", "-", "_"}
var nameVendors = []string{"vendor.com", "v", "a-b.c_d", "vendor1.example.org", "V9"}
var nameClasses = []string{"device", "c", "gpu.json", "net.yaml", "a.b", "x-1_y", "json", "d.tmp"}
var nameExts = []string{"", ".json", ".yaml", ".yml", ".JSON", ".tmp", "."}

func (namesStream) Generate(rng *rand.Rand, tier string, emit func(Case)) {
	// name generators: the full small product
	for _, v := range append(nameVendors, "", "bad vendor", "1v") {
		for _, cl := range append(nameClasses, "", "bad/class") {
			for _, id := range transientIDs {
				emit(Case{"op": "genname", "vendor": hx(v), "class": hx(cl), "id": hx(id)})
			}
		}
	}
	for _, kind := range []string{"vendor.com/device", "v/c", "novendor", "/c", "v/", "", "a/b/c", "vendor.com/gpu.json"} {
		for _, id := range transientIDs[:8] {
			emit(Case{"op": "gennamespec", "kind": hx(kind), "id": hx(id)})
		}
	}
	dirLayouts := [][]string{{"etc"}, {"etc", "run"}, {"etc", "run", "etc"}, {"a/b/c"}, {"etc", "missing/two/levels"}, {"x/../y", "z//w/"}, {"etc", "run/"}}
	n := 250
	if tier == "thorough" {
		n = 4000
	}
	for i := 0; i < n; i++ {
		v := nameVendors[rng.Intn(len(nameVendors))]
		cl := nameClasses[rng.Intn(len(nameClasses))]
		id := transientIDs[rng.Intn(len(transientIDs))]
		ext := nameExts[rng.Intn(len(nameExts))]
		dirs := dirLayouts[rng.Intn(len(dirLayouts))]
		emit(Case{"op": "write", "vendor": hx(v), "class": hx(cl), "id": hx(id), "ext": hx(ext), "transient": rng.Intn(4) != 0,
			"reldirs": hxList(dirs), "lastmissing": rng.Intn(3) == 0, "preexisting": rng.Intn(3) == 0, "clutter": rng.Intn(2) == 0,
			"thenremove": true, "history": i%2 == 1})
	}
}

func namesSpec(vendor, class string) *specs.Spec {
	return &specs.Spec{
		Version: specs.CurrentVersion,
		Kind:    vendor + "/" + class,
		Devices: []specs.Device{{Name: "dev0", ContainerEdits: specs.ContainerEdits{Env: []string{"A=b"}}}},
	}
}

func (namesStream) Execute(c Case) {
	op, _ := c["op"].(string)
	obs := map[string]any{"panic": false}
	defer func() {
		if r := recover(); r != nil {
			obs["panic"] = true
			obs["err"] = true
			if _, ok := obs["changed"]; !ok {
				obs["changed"], obs["newdirs"], obs["specpath"] = []any{}, []any{}, ""
			}
			obs["name"], obs["transient"], obs["ok"] = "", "", false
		}
		c["obs"] = obs
	}()
	switch op {
	case "genname":
		obs["name"] = hx(cdi.GenerateSpecName(unhx(c["vendor"]), unhx(c["class"])))
		obs["transient"] = hx(cdi.GenerateTransientSpecName(unhx(c["vendor"]), unhx(c["class"]), unhx(c["id"])))
	case "gennamespec":
		raw := &specs.Spec{Kind: unhx(c["kind"])}
		n, err1 := cdi.GenerateNameForSpec(raw)
		t, err2 := cdi.GenerateNameForTransientSpec(raw, unhx(c["id"]))
		obs["ok"] = err1 == nil && err2 == nil
		obs["name"], obs["transient"] = hx(n), hx(t)
	case "write":
		_ = os.RemoveAll(namesRoot)
		defer os.RemoveAll(namesRoot)
		rel := unhxList(c["reldirs"])
		dirs := make([]string, len(rel))
		for i, r := range rel {
			dirs[i] = namesRoot + "/" + r
		}
		lastMissing, _ := c["lastmissing"].(bool)
		for i, d := range dirs {
			if i == len(dirs)-1 && lastMissing {
				continue
			}
			_ = os.MkdirAll(d, 0o755)
		}
		vendor, class := unhx(c["vendor"]), unhx(c["class"])
		var name string
		if tr, _ := c["transient"].(bool); tr {
			name = cdi.GenerateTransientSpecName(vendor, class, unhx(c["id"]))
		} else {
			name = cdi.GenerateSpecName(vendor, class)
		}
		name += unhx(c["ext"])
		cleaned := make([]string, len(dirs))
		for i, d := range dirs {
			cleaned[i] = filepath.Clean(d)
		}
		c["dirs"] = hxList(cleaned)
		c["name"] = hx(name)
		if cl, _ := c["clutter"].(bool); cl {
			_ = os.MkdirAll(dirs[0], 0o755)
			_ = os.WriteFile(filepath.Join(dirs[0], "other.json"), []byte(`{"cdiVersion":"0.6.0","kind":"other.com/x","devices":[{"name":"d","containerEdits":{"env":["X=y"]}}]}`), 0o644)
			_ = os.WriteFile(filepath.Join(namesRoot, "outside.txt"), []byte("keep"), 0o644)
			if len(cleaned) >= 2 && cleaned[0] != cleaned[len(cleaned)-1] {
				// two files of the first (lower priority) directory define the very device that is about to be
				// written into the last one: their conflict must not hide the higher-priority definition
				for _, fn := range []string{"conflict-a.json", "conflict-b.json"} {
					b, _ := json.Marshal(namesSpec(vendor, class))
					_ = os.WriteFile(filepath.Join(dirs[0], fn), b, 0o644)
				}
			}
		}
		if cl, _ := c["clutter"].(bool); cl && !lastMissing {
			// bystanders in the very directory that is written to: the file of the same stem with the other Spec extension
			// (another Spec: vendor.com/dev.json's file vendor.com-dev.json next to vendor.com/dev's vendor.com-dev.yaml),
			// files that look like leftovers of a writer, backups, hidden files. A write or a removal touches its own file only.
			last := dirs[len(dirs)-1]
			stem := strings.TrimSuffix(strings.TrimSuffix(name, ".json"), ".yaml")
			twin := stem + ".json"
			if !strings.HasSuffix(name, ".yaml") && !(filepath.Ext(name) != ".json" && filepath.Ext(name) != ".yaml") {
				twin = stem + ".yaml"
			}
			if twin != name && twin != name+".yaml" && !strings.Contains(stem, "/") {
				_ = os.WriteFile(filepath.Join(last, twin), []byte(`{"cdiVersion":"0.6.0","kind":"twin.com/x","devices":[{"name":"t","containerEdits":{"env":["T=w"]}}]}`), 0o644)
			}
			for _, fn := range []string{"spec.123456789.tmp", "spec.1.tmp", stem + ".bak", "." + stem + ".swp", stem + ".json.orig", "unrelated.txt"} {
				if !strings.Contains(fn, "/") {
					_ = os.WriteFile(filepath.Join(last, fn), []byte("bystander"), 0o644)
				}
			}
		}
		var cache *cdi.Cache
		if hist, _ := c["history"].(bool); hist {
			// the cache has a past: it was used with other directories (a Spec written there and removed again), a
			// write into a directory that cannot be created has failed, then it was given the directories of this case
			prev := []string{filepath.Join(namesRoot, "prev-etc"), filepath.Join(namesRoot, "prev-last")}
			cache, _ = cdi.NewCache(cdi.WithSpecDirs(prev...), cdi.WithAutoRefresh(false))
			_ = cache.WriteSpec(namesSpec("prev.com", "old"), "prev.yaml")
			_ = cache.RemoveSpec("prev.yaml")
			_ = os.WriteFile(filepath.Join(namesRoot, "blocked"), []byte("a file, not a directory"), 0o644)
			_ = cache.Configure(cdi.WithSpecDirs(filepath.Join(namesRoot, "blocked", "sub")))
			big := namesSpec("failed.com", "write")
			big.Devices[0].ContainerEdits.Env = []string{"NEVER=written", "PAD=" + strings.Repeat("f", 3000)}
			_ = cache.WriteSpec(big, "never.yaml")
			_ = cache.WriteSpec(big, "never.json")
			_ = os.Remove(filepath.Join(namesRoot, "blocked"))
			_ = os.RemoveAll(filepath.Join(namesRoot, "prev-etc"))
			_ = os.RemoveAll(filepath.Join(namesRoot, "prev-last"))
			_ = cache.Configure(cdi.WithSpecDirs(dirs...))
		} else {
			cache, _ = cdi.NewCache(cdi.WithSpecDirs(dirs...), cdi.WithAutoRefresh(false))
		}
		if pre, _ := c["preexisting"].(bool); pre && !lastMissing {
			_ = cache.WriteSpec(namesSpec(vendor, class), name)
		}
		// removing the name before anything was written under it - also while the last directory does not exist -
		// succeeds and changes nothing (recorded as a derived observation, judged like the removal of a missing name)
		pre0 := snapshotTree(namesRoot)
		rerr0 := cache.RemoveSpec(name + ".absent")
		ch0, nd0 := diffTree(pre0, snapshotTree(namesRoot))
		// the name to be written exists already as a link - symbolic or hard - to a file kept elsewhere: the write
		// replaces the directory entry, the file elsewhere stays as it is
		linkedOutside, linkedContent := "", []byte(nil)
		if cl, _ := c["clutter"].(bool); cl && !lastMissing && !strings.Contains(name, "/") {
			tpath := filepath.Join(dirs[len(dirs)-1], name)
			if e := filepath.Ext(name); e != ".json" && e != ".yaml" {
				tpath += ".yaml"
			}
			linkedOutside = filepath.Join(namesRoot, "kept-elsewhere.json")
			linkedContent, _ = json.Marshal(namesSpec("elsewhere.com", "kept"))
			_ = os.WriteFile(linkedOutside, linkedContent, 0o644)
			_ = os.Remove(tpath)
			if len(name)%2 == 0 {
				_ = os.Symlink(linkedOutside, tpath)
			} else {
				_ = os.Link(linkedOutside, tpath)
			}
		}
		before := snapshotTree(namesRoot)
		spec := namesSpec(vendor, class)
		spec.Devices[0].ContainerEdits.Env = []string{"A=new"}
		err := cache.WriteSpec(spec, name)
		if linkedOutside != "" {
			if now, rerr := os.ReadFile(linkedOutside); rerr != nil || string(now) != string(linkedContent) {
				obs["aux"] = []any{"WriteSpec wrote through a link: a file outside the Spec directory that the name was linked to has changed"}
			}
		}
		after := snapshotTree(namesRoot)
		changed, newDirs := diffTree(before, after)
		obs["err"] = err != nil
		obs["changed"], obs["newdirs"] = hxList(changed), hxList(newDirs)
		if shadowRuns < 6 {
			shadowRuns++
			if msg := shadowRemoval(shadowRuns%2 == 0); msg != "" {
				prev, _ := obs["aux"].([]any)
				obs["aux"] = append(prev, msg)
			}
		}
		obs["specpath"] = ""
		if err == nil {
			_ = cache.Refresh()
			if d := cache.GetDevice(vendor + "/" + class + "=dev0"); d != nil {
				obs["specpath"] = hx(d.GetSpec().GetPath())
				obs["specprio"] = d.GetSpec().GetPriority()
			}
		}
		if tr, _ := c["thenremove"].(bool); tr {
			// the follow-up removal is recorded as a second observation, judged by op "remove"
			rerr := cache.RemoveSpec(name)
			after2 := snapshotTree(namesRoot)
			ch2, nd2 := diffTree(after, after2)
			// a second removal of the now missing name must succeed and change nothing
			rerr2 := cache.RemoveSpec(name)
			after3 := snapshotTree(namesRoot)
			ch3, _ := diffTree(after2, after3)
			written := []string{}
			if err == nil {
				written = changed
			}
			parent := Case{}
			for k, v := range c {
				if k != "obs" && k != "spawn" {
					parent[k] = v
				}
			}
			mk := func(which string, written []string, e error, ch, nd []string) Case {
				return Case{"stream": "names", "op": "remove", "which": which, "parent": map[string]any(parent),
					"dirs": c["dirs"], "name": c["name"], "written": hxList(written),
					"obs": map[string]any{"panic": false, "err": e != nil, "changed": hxList(ch), "newdirs": hxList(nd)}}
			}
			// writing the very same Spec again after the removal (no refresh in between) re-creates the file
			var err4 error = fmt.Errorf("first write failed")
			var ch4, nd4 []string
			if err == nil {
				err4 = cache.WriteSpec(spec, name)
				after4 := snapshotTree(namesRoot)
				ch4, nd4 = diffTree(after3, after4)
				_ = cache.RemoveSpec(name)
			}
			sp := []Case{mk("remove", written, rerr, ch2, nd2), mk("remove2", nil, rerr2, ch3, nil)}
			r0 := mk("remove0", nil, rerr0, ch0, nd0)
			r0["name"] = hx(name + ".absent")
			sp = append(sp, r0)
			if err == nil && rerr == nil {
				sp = append(sp, mk("rewrite", written, err4, ch4, nd4))
			}
			c["spawn"] = sp
		}
	case "remove":
		// derived case (replay only): re-run the parent write and pick the recorded follow-up
		pm, _ := c["parent"].(map[string]any)
		parent := Case(pm)
		namesStream{}.Execute(parent)
		obs["err"], obs["changed"], obs["newdirs"] = true, []any{}, []any{}
		if sp, ok := parent["spawn"].([]Case); ok {
			for _, d := range sp {
				if d["which"] == c["which"] {
					for k, v := range d["obs"].(map[string]any) {
						obs[k] = v
					}
					c["written"], c["dirs"], c["name"] = d["written"], d["dirs"], d["name"]
				}
			}
		}
	}
}

var shadowRuns int

// shadowRemoval: a Spec written into the last directory shadows a definition of the same device in an earlier one; it is
// removed again. At every moment the device resolves: to the written definition (the snapshot before the removal) or
// to the earlier one (after it) - never to nothing, with or without a refresh in between.
func shadowRemoval(auto bool) string {
	root := namesRoot + "-shadow"
	_ = os.RemoveAll(root)
	defer os.RemoveAll(root)
	lo, hi := filepath.Join(root, "lo"), filepath.Join(root, "hi")
	_ = os.MkdirAll(lo, 0o755)
	_ = os.MkdirAll(hi, 0o755)
	low := namesSpec("shadow.com", "cls")
	low.Devices[0].ContainerEdits.Env = []string{"FROM=lo"}
	b, _ := json.Marshal(low)
	_ = os.WriteFile(filepath.Join(lo, "base.json"), b, 0o644)
	cache, _ := cdi.NewCache(cdi.WithSpecDirs(lo, hi), cdi.WithAutoRefresh(auto))
	defer func() { _ = cache.Configure(cdi.WithAutoRefresh(false)) }()
	high := namesSpec("shadow.com", "cls")
	high.Devices[0].ContainerEdits.Env = []string{"FROM=hi"}
	if cache.WriteSpec(high, "shadow") != nil {
		return ""
	}
	_ = cache.Refresh()
	q := "shadow.com/cls=" + low.Devices[0].Name
	for deadline := time.Now().Add(3 * time.Second); time.Now().Before(deadline); time.Sleep(10 * time.Millisecond) {
		if d := cache.GetDevice(q); d != nil && len(d.ContainerEdits.Env) == 1 && d.ContainerEdits.Env[0] == "FROM=hi" {
			break
		}
	}
	if cache.RemoveSpec("shadow") != nil {
		return ""
	}
	for i := 0; i < 50; i++ {
		if cache.GetDevice(q) == nil {
			return fmt.Sprintf("after RemoveSpec of a Spec that shadowed a lower-priority definition, %s resolves to nothing (auto-refresh %v, query %d)", q, auto, i)
		}
		if i == 25 {
			_ = cache.Refresh()
		}
		time.Sleep(2 * time.Millisecond)
	}
	if d := cache.GetDevice(q); d == nil || d.ContainerEdits.Env[0] != "FROM=lo" {
		return "after RemoveSpec and Refresh the lower-priority definition is not the one in force"
	}
	return ""
}
