package main

import (
	"time"
	"bytes"
	"encoding/json"
	"fmt"
	"math/rand"
	"os"
	"os/exec"
	"path/filepath"
	"sort"
	"strings"

	oci "github.com/opencontainers/runtime-spec/specs-go"
	"tags.cncf.io/container-device-interface/pkg/cdi"
	"tags.cncf.io/container-device-interface/schema"
)

// cliStream — C19: the rebuilt `cdi` and `validate` binaries against in-process
// library calls on the same directories / documents.
type cliStream struct{}

func init() { register(cliStream{}) }

func (cliStream) Name() string          { return "cli" }
func (cliStream) TrivialTags() []string { return nil }

func binPath(name string) string {
	if d := os.Getenv("VERIF_BUILD"); d != "" {
		return filepath.Join(d, name)
	}
	// the binaries ./check builds lie next to this one
	if self, err := os.Executable(); err == nil {
		return filepath.Join(filepath.Dir(self), name)
	}
	return "/verif/build/" + name
}

func (cliStream) Generate(rng *rand.Rand, tier string, emit func(Case)) {
	n, nv := 25, 40
	if tier == "thorough" {
		n, nv = 400, 600
	}
	cmds := []string{"devices", "vendors", "classes", "specs", "validate"}
	for i := 0; i < n; i++ {
		l := genLayout(rng)
		if i%3 != 0 {
			l = genCleanLayout(rng) // the tool stops at the first cache error: most cases must be error-free
		}
		if i < 2 {
			// two files of one directory in conflict: both are files in error for the library
			l = layoutDesc{Phys: map[string][]fileDesc{"A": {
				{Name: "a.json", Kind: "valid", Vendor: "v1.com", Class: "c1", Devs: []string{"d0"}, Tag: "K0"},
				{Name: "b.yaml", Kind: "valid", Vendor: "v1.com", Class: "c1", Devs: []string{"d0", "d1"}, Tag: "K1", Rich: i == 1}}},
				Dirs: []string{"p:A"}}
		}
		if len(l.Dirs) == 0 {
			l.Dirs = []string{"p:A"} // without --spec-dirs the tool uses the default directories: not this stream's subject
		}
		schemaChoice := "builtin"
		if i%4 == 1 {
			// a Spec the library's own checks accept and the builtin schema rejects (a negative hook timeout): with
			// the schema the tool installs as validator (the builtin one unless --schema says otherwise) it is a
			// file in error, with --schema none it is not
			for _, d := range l.Dirs { // a directory that is configured
				if strings.HasPrefix(d, "p:") {
					l.Phys[d[2:]] = append(append([]fileDesc{}, l.Phys[d[2:]]...), fileDesc{Name: "schema-only.json", Kind: "schemaonly", Vendor: "v2.com", Class: "c2", Devs: []string{"d2"}, Tag: "SO"})
					break
				}
			}
			if i%8 == 1 {
				schemaChoice = "none"
			}
		}
		// keep directory kinds the tool can be pointed at; drop kinds that need unusual paths
		lj, _ := json.Marshal(l)
		var lm map[string]any
		_ = json.Unmarshal(lj, &lm)
		for _, c := range cmds {
			emit(Case{"op": "list", "cmd": c, "layout": lm, "schema": schemaChoice, "dirstyle": []string{"", "trailing", "double", "dot"}[(i+len(c))%4]})
		}
		// the detailed forms: --verbose with every --output choice (also one the tool does not know), vendor
		// arguments of `specs` (present in the cache / unknown), and the directory listing
		fm := []string{"", "json", "yaml", "xml"}[i%4]
		emit(Case{"op": "list", "cmd": "devices", "verbose": true, "format": hx(fm), "layout": lm, "schema": schemaChoice, "dirstyle": ""})
		emit(Case{"op": "list", "cmd": "specs", "verbose": true, "format": hx([]string{"json", "", "xml", "yaml"}[i%4]), "layout": lm, "schema": schemaChoice, "dirstyle": ""})
		emit(Case{"op": "list", "cmd": "specs", "verbose": i%2 == 0, "format": hx(""), "args": hxList([][]string{{"v1.com"}, {"nosuch.vendor"}, {"v2.com", "v1.com"}}[i%3]), "layout": lm, "schema": schemaChoice, "dirstyle": ""})
		emit(Case{"op": "list", "cmd": "dirs", "layout": lm, "schema": schemaChoice, "dirstyle": []string{"", "trailing", "double", "dot"}[i%4]})
		emit(Case{"op": "inject", "layout": lm, "patterns": hxList([][]string{{"*/*"}, {"v1.com/*"}, {"*/*=d0", "v2.com/c1=d1"}, {"nomatch*"}, {"*"}, {"*/*", "*/*=d0"}, {"v1.com/c1=d0", "v1.com/*", "*/c1=d0"},
			{"*/*=d1", "*/*=d0", "*/*=d1"}, {"v?.com/c[12]=d*", "*/c1=*"}}[rng.Intn(9)]),
			"ocikind": rng.Intn(3), "format": []string{"json", "yaml"}[rng.Intn(2)]})
	}
	// documents beyond 1 MiB, as a file argument and on standard input: a valid one, and one whose only defect
	// comes after the first MiB
	pad := jstr("PAD=" + strings.Repeat("x", 1300000))
	for _, bad := range []bool{false, true} {
		var devEdits any = obj("env", jarr{jstr("A=b")})
		if bad {
			devEdits = obj("env", jstr("not-a-list"))
		}
		big := obj("cdiVersion", jstr("1.0.0"), "kind", jstr("vendor.com/class"), "containerEdits", obj("env", jarr{pad}),
			"devices", jarr{obj("name", jstr("dev0"), "containerEdits", devEdits)})
		for _, stdin := range []bool{true, false} {
			for _, y := range []bool{false, true} {
				emit(Case{"op": "validatetool", "docs": []any{map[string]any{"doc": docToProto(big), "yaml": y}}, "label": "beyond-1MiB", "schema": "builtin", "stdin": stdin})
			}
		}
	}
	// the monitor sub-command: a Spec file appears while it runs; what it prints then is the library's listing
	for k := 0; k < 2; k++ {
		l := genCleanLayout(rng)
		if len(l.Dirs) == 0 {
			l.Dirs = []string{"p:A"}
		}
		lj, _ := json.Marshal(l)
		var lm map[string]any
		_ = json.Unmarshal(lj, &lm)
		emit(Case{"op": "monitor", "layout": lm})
	}
	g := docGen{rng}
	for i := 0; i < nv; i++ {
		d := g.spec()
		label := "generated-spec"
		if rng.Intn(2) == 0 {
			if l := g.schemaMutate(d, schemaMutations[rng.Intn(len(schemaMutations))]); l != "" {
				label = l
			}
		}
		docs := []any{map[string]any{"doc": docToProto(d), "yaml": rng.Intn(2) == 0}}
		// one to three documents per invocation, valid and invalid in any order; sometimes on standard input
		for k := rng.Intn(3); k > 0; k-- {
			d2 := g.spec()
			if rng.Intn(2) == 0 {
				g.schemaMutate(d2, schemaMutations[rng.Intn(len(schemaMutations))])
			}
			docs = append(docs, map[string]any{"doc": docToProto(d2), "yaml": rng.Intn(2) == 0})
		}
		emit(Case{"op": "validatetool", "docs": docs, "label": label, "schema": []string{"builtin", "none"}[rng.Intn(4)/3],
			"stdin": len(docs) == 1 && rng.Intn(2) == 0})
	}
}

func runTool(stdin []byte, name string, args ...string) (lines []string, exit int) {
	cmd := exec.Command(binPath(name), args...)
	var out bytes.Buffer
	cmd.Stdout = &out
	if stdin != nil {
		cmd.Stdin = bytes.NewReader(stdin)
	}
	err := cmd.Run()
	if ee, ok := err.(*exec.ExitError); ok {
		exit = ee.ExitCode()
	} else if err != nil {
		exit = 127
	}
	s := strings.TrimSuffix(out.String(), "\n")
	if s == "" {
		return []string{}, exit
	}
	return strings.Split(s, "\n"), exit
}

func (cliStream) Execute(c Case) {
	obs := map[string]any{}
	lib := map[string]any{}
	c["obs"], c["lib"] = obs, lib
	if _, err := os.Stat(binPath("cdi")); err != nil {
		skip("cdi binary not built")
	}
	switch c["op"] {
	case "monitor":
		defer os.RemoveAll(cacheRoot)
		var l layoutDesc
		lj, _ := json.Marshal(c["layout"])
		_ = json.Unmarshal(lj, &l)
		dirs, _ := materialize(l)
		obs["stdout"], obs["skipped"] = []any{}, true
		var target string
		for _, d := range dirs {
			if fi, err := os.Stat(d); err == nil && fi.IsDir() {
				target = d
			}
		}
		lib["devices"] = []any{}
		if target == "" {
			return
		}
		cmd := exec.Command(binPath("cdi"), "-d", strings.Join(dirs, ","), "monitor", "devices")
		var out bytes.Buffer
		cmd.Stdout = &out
		if cmd.Start() != nil {
			return
		}
		time.Sleep(1500 * time.Millisecond) // the listing at start has been printed
		tmp := filepath.Join(cacheRoot, "outside", "late.json")
		_ = os.WriteFile(tmp, []byte(`{"cdiVersion":"0.6.0","kind":"monitor.com/late","devices":[{"name":"m0","containerEdits":{"env":["M=0"]}}]}`), 0o644)
		_ = os.Rename(tmp, filepath.Join(target, "zz-monitor-late.json"))
		time.Sleep(2200 * time.Millisecond) // one second after the last event the tool prints again
		_ = cmd.Process.Kill()
		_ = cmd.Wait()
		fresh, _ := cdi.NewCache(cdi.WithSpecDirs(dirs...), cdi.WithAutoRefresh(false))
		lib["devices"] = hxList(fresh.ListDevices())
		lines := strings.Split(strings.TrimSuffix(out.String(), "\n"), "\n")
		last := -1
		for i, ln := range lines {
			if ln == "CDI devices found:" || ln == "No CDI devices found." {
				last = i
			}
		}
		if last >= 0 {
			obs["stdout"], obs["skipped"] = hxList(lines[last:]), false
		}
		return
	case "list", "inject":
		defer os.RemoveAll(cacheRoot)
		var l layoutDesc
		lj, _ := json.Marshal(c["layout"])
		_ = json.Unmarshal(lj, &l)
		dirs, _ := materialize(l)
		// the same configuration the tool uses: default options (auto-refresh on), so that directory
		// monitoring errors are part of "what the library reports"; the watch is stopped afterwards
		// ... and the same Spec validator: the schema named by --schema (default: builtin)
		schemaArg, _ := c["schema"].(string)
		if schemaArg == "" {
			schemaArg = "builtin"
		}
		if sch, err := schema.Load(schemaArg); err == nil {
			cdi.SetSpecValidator(schema.WithSchema(sch))
			defer cdi.SetSpecValidator(nil)
		}
		cache, _ := cdi.NewCache(cdi.WithSpecDirs(dirs...))
		defer func() { _ = cache.Configure(cdi.WithAutoRefresh(false)) }()
		var keys []string
		for k := range cache.GetErrors() {
			keys = append(keys, k)
		}
		sort.Strings(keys)
		lib["errorkeys"] = hxList(keys)
		// the directories as a user may spell them: plain, with a trailing slash, with a doubled slash, through "."
		spelled := append([]string{}, dirs...)
		for i, d := range spelled {
			switch c["dirstyle"] {
			case "trailing":
				spelled[i] = d + "/"
			case "double":
				spelled[i] = strings.Replace(d, "/", "//", 2)
			case "dot":
				spelled[i] = filepath.Dir(d) + "/./" + filepath.Base(d)
			}
		}
		dirArg := strings.Join(spelled, ",")
		if c["op"] == "list" {
			lib["devices"] = hxList(cache.ListDevices())
			var vs, specs []any
			for _, v := range cache.ListVendors() {
				var paths []string
				for _, s := range cache.GetVendorSpecs(v) {
					paths = append(paths, s.GetPath())
				}
				vs = append(vs, map[string]any{"vendor": hx(v), "nspecs": len(paths)})
				specs = append(specs, map[string]any{"vendor": hx(v), "paths": hxList(paths)})
			}
			if vs == nil {
				vs, specs = []any{}, []any{}
			}
			lib["vendors"], lib["specs"] = vs, specs
			var cs []any
			for _, cl := range cache.ListClasses() {
				var vend []string
				for _, v := range cache.ListVendors() {
					for _, s := range cache.GetVendorSpecs(v) {
						if s.GetClass() == cl {
							vend = append(vend, v)
						}
					}
				}
				sort.Strings(vend)
				cs = append(cs, map[string]any{"class": hx(cl), "vendors": hxList(vend)})
			}
			if cs == nil {
				cs = []any{}
			}
			lib["classes"] = cs
			lib["dirs"] = hxList(cache.GetSpecDirectories())
			both := func(v any) (string, string) {
				j, _ := json.MarshalIndent(v, "", "  ")
				y, _ := yaml3Marshal(v)
				return hx(string(j)), hx(string(y))
			}
			verbose, _ := c["verbose"].(bool)
			if verbose || c["args"] != nil {
				dv := []any{}
				for _, name := range cache.ListDevices() {
					dev := cache.GetDevice(name)
					sp := dev.GetSpec()
					e := sp.ContainerEdits
					dj, dy := both(dev.Device)
					ej, ey := both(sp.ContainerEdits)
					dv = append(dv, map[string]any{"name": hx(dev.GetQualifiedName()), "path": hx(sp.GetPath()), "devjson": dj, "devyaml": dy,
						"nglobal": len(e.Env) + len(e.DeviceNodes) + len(e.Hooks) + len(e.Mounts), "editsjson": ej, "editsyaml": ey})
				}
				lib["devviews"] = dv
				sv := []any{}
				for _, v := range cache.ListVendors() {
					ss := []any{}
					for _, sp := range cache.GetVendorSpecs(v) {
						sj, sy := both(sp.Spec)
						ss = append(ss, map[string]any{"path": hx(sp.GetPath()), "json": sj, "yaml": sy})
					}
					sv = append(sv, map[string]any{"vendor": hx(v), "specs": ss})
				}
				lib["specviews"] = sv
			}
			targs := []string{"-d", dirArg, "-s", schemaArg, c["cmd"].(string)}
			if verbose {
				targs = append(targs, "-v")
			}
			if f, ok := c["format"].(string); ok && unhx(f) != "" {
				targs = append(targs, "-o", unhx(f))
			}
			if c["args"] != nil {
				targs = append(targs, unhxList(c["args"])...)
			}
			lines, exit := runTool(nil, "cdi", targs...)
			obs["stdout"], obs["exit"] = hxList(lines), exit
			return
		}
		// inject
		mk := func() *oci.Spec {
			s := &oci.Spec{Version: "1.0.2"}
			kind := kindIdx(c["ocikind"])
			if kind >= 1 {
				// (strings that look like printf verbs: the tool prints data, it does not format with it)
				s.Process = &oci.Process{Env: []string{"PATH=/bin", "PS1=%n@%m %d 100%", "DATE_FORMAT=%Y-%m-%d %s%"}, Cwd: "/"}
				s.Mounts = []oci.Mount{{Destination: "/proc", Type: "proc", Source: "proc"}}
			}
			if kind == 2 {
				s.Hooks = &oci.Hooks{Prestart: []oci.Hook{{Path: "/bin/existing"}}}
			}
			return s
		}
		patterns := unhxList(c["patterns"])
		format, _ := c["format"].(string)
		ociFile := filepath.Join(cacheRoot, "config.json")
		data, _ := json.Marshal(mk())
		if len(patterns)%2 == 1 {
			// an OCI spec written by a newer runtime: members this tool's runtime-spec version does not know, a vendor
			// extension, a member given twice - the library would never see them; the tool injects all the same
			data = append([]byte(`{"x-vendor-extension":{"k":[1,2]},"ociVersion":"1.0.0",`), data[1:]...)
			data = []byte(strings.Replace(string(data), `"process":{`, `"process":{"execCPUAffinity":{"initial":"0-1"},`, 1))
		}
		_ = os.WriteFile(ociFile, data, 0o644)
		matches := map[string]bool{}
		for _, d := range cache.ListDevices() {
			for _, p := range patterns {
				if ok, _ := filepath.Match(p, d); ok {
					matches[d] = true
				}
			}
		}
		var devs []string
		for d := range matches {
			devs = append(devs, d)
		}
		sort.Strings(devs)
		listed := cache.ListDevices()
		matrix := []any{}
		for _, d := range listed {
			row := []any{}
			for _, p := range patterns {
				ok, err := filepath.Match(p, d)
				switch {
				case err != nil:
					row = append(row, 2)
				case ok:
					row = append(row, 1)
				default:
					row = append(row, 0)
				}
			}
			matrix = append(matrix, row)
		}
		lib["listed"], lib["matrix"], lib["selected"] = hxList(listed), matrix, hxList(devs)
		want := mk()
		_, lerr := cache.InjectDevices(want, devs...)
		lib["err"] = lerr != nil || len(keys) > 0
		args := append([]string{"-d", dirArg, "inject", "-o", format, ociFile}, patterns...)
		lines, exit := runTool(nil, "cdi", args...)
		obs["exit"] = exit
		obs["sameaslibrary"] = false
		for i, ln := range lines {
			if ln == "Updated OCI Spec:" {
				// the tool prints the injected spec with its pretty-printer (json.MarshalIndent / yaml.v3),
				// each line indented by two spaces: render the library's result the same way and compare
				var raw []byte
				if format == "json" {
					raw, _ = json.MarshalIndent(want, "", "  ")
				} else {
					raw, _ = yaml3Marshal(want)
				}
				var exp []string
				for _, l := range strings.Split(strings.TrimSuffix(string(raw), "\n"), "\n") {
					exp = append(exp, "  "+l)
				}
				obs["sameaslibrary"] = strings.Join(exp, "\n") == strings.Join(lines[i+1:], "\n")
			}
		}
	case "validatetool":
		dir := scratchRoot(filepath.Join(os.TempDir(), "cdi-verif-cli-validate"))
		_ = os.MkdirAll(dir, 0o755)
		defer os.RemoveAll(dir)
		sname, _ := c["schema"].(string)
		s, err := schema.Load(sname)
		docs, _ := c["docs"].([]any)
		stdin, _ := c["stdin"].(bool)
		var paths, names []string
		var oks []any
		var input []byte
		for i, e := range docs {
			m, _ := e.(map[string]any)
			doc := protoToDoc(m["doc"])
			path := filepath.Join(dir, fmt.Sprintf("doc%d.json", i))
			text := renderJSON(doc)
			if y, _ := m["yaml"].(bool); y {
				path, text = filepath.Join(dir, fmt.Sprintf("doc%d.yaml", i)), renderYAML(doc)
			}
			_ = os.WriteFile(path, text, 0o644)
			if stdin {
				input = text
				oks = append(oks, err == nil && s.ValidateData(text) == nil)
				names = append(names, "<stdin>")
				continue
			}
			oks = append(oks, err == nil && s.ValidateFile(path) == nil)
			if i%2 == 1 {
				// the document is given through a symbolic link (a ConfigMap volume, an alternatives-managed entry)
				link := filepath.Join(dir, fmt.Sprintf("link%d%s", i, filepath.Ext(path)))
				if os.Symlink(path, link) == nil {
					path = link
				}
			}
			paths = append(paths, path)
			names = append(names, path)
		}
		lib["schemaok"], lib["names"] = oks, strs2any(names)
		lines, exit := runTool(input, "validate", append([]string{"--schema", sname}, paths...)...)
		// the tool prints a header line naming the schema first
		var body []string
		for _, l := range lines {
			if !strings.HasPrefix(l, "Validating against") {
				body = append(body, l)
			}
		}
		obs["exit"], obs["stdout"] = exit, strs2any(body)
	}
}

func readOCIYAML(data []byte) (oci.Spec, error) {
	var s oci.Spec
	j, err := yamlToJSON(data)
	if err != nil {
		return s, err
	}
	err = json.Unmarshal(j, &s)
	return s, err
}
